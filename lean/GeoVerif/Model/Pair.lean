/-
`Pair` — linked survey entities (C20).

geoh5py/objects/surveys/electromagnetics/base.py (`BaseEMSurvey.metadata` setter,
`edit_em_metadata`, `receivers`/`transmitters`/`base_stations` setters, `copy`,
`copy_complement`, `LargeLoopGroundEMSurvey.copy_complement`) and
geoh5py/objects/surveys/direct_current.py (`current_electrodes`/`potential_electrodes`
setters, `BaseElectrode.copy`).

Side `A` = receivers / potential electrodes, side `B` = transmitters / base stations /
current electrodes.  Each entity has an identifier and a metadata record holding the two
partner identifiers and the survey parameters.  After linking the two live entities hold ONE
record (the Python objects alias one `dict`): `Live.shared`.  After re-opening each entity
reads its own stored record: `Live.split`.  The stored (file) record of each side is modelled
separately from the live record, so that "visible on both" (live) and "stored" (file) are
distinct statements.

`Cfg.writeThrough = true` is the behaviour of the EM metadata setter (every edit is pushed
to the partner resolved through the recorded identifier and written for both); `false` is the
as-found behaviour of `BaseElectrode.metadata` (the record seen through the editing side is
mutated and written for that side only).  `Cfg.carry` says whether a copy takes the survey
parameters along (EM: yes; direct current: the copies only get the identifiers, a copy
without partner no metadata at all).
-/
namespace GeoVerif.Pair

inductive Side where
  | A | B
deriving DecidableEq, Repr

def Side.other : Side → Side
  | .A => .B
  | .B => .A

def Side.pick (s : Side) (a b : Nat) : Nat :=
  match s with
  | .A => a
  | .B => b

/-- survey parameters: key ↦ value (`none` = key absent) -/
abbrev Params := String → Option String

def Params.empty : Params := fun _ => none

def Params.set (m : Params) (k : String) (v : Option String) : Params :=
  fun k' => if k' = k then v else m k'

def Params.ofList (l : List (String × String)) : Params :=
  l.foldl (fun m kv => Params.set m kv.1 (some kv.2)) Params.empty

/-- one metadata record -/
structure Rec where
  idA : Option Nat          -- "Receivers" / "Potential Electrodes"
  idB : Option Nat          -- "Transmitters" / "Base stations" / "Current Electrodes"
  params : Params

def Rec.id (r : Rec) : Side → Option Nat
  | .A => r.idA
  | .B => r.idB

def Rec.setId (r : Rec) (s : Side) (u : Nat) : Rec :=
  match s with
  | .A => { r with idA := some u }
  | .B => { r with idB := some u }

def Rec.setParam (r : Rec) (k : String) (v : Option String) : Rec :=
  { r with params := r.params.set k v }

/-- the live metadata objects of the two entities -/
inductive Live where
  | shared (r : Rec)              -- one dict object, aliased by both entities
  | split (ra rb : Rec)           -- two dict objects

def Live.view : Live → Side → Rec
  | .shared r, _ => r
  | .split ra _, .A => ra
  | .split _ rb, .B => rb

def Live.setSide : Live → Side → Rec → Live
  | .shared _, _, r => .shared r          -- mutating the aliased dict: both see it
  | .split _ rb, .A, r => .split r rb
  | .split ra _, .B, r => .split ra r

structure Pair where
  uidA : Nat
  uidB : Nat
  live : Live
  storedA : Rec
  storedB : Rec

def Pair.uid (p : Pair) : Side → Nat
  | .A => p.uidA
  | .B => p.uidB

def Pair.view (p : Pair) (s : Side) : Rec := p.live.view s

def Pair.stored (p : Pair) : Side → Rec
  | .A => p.storedA
  | .B => p.storedB

def Pair.setStored (p : Pair) (s : Side) (r : Rec) : Pair :=
  match s with
  | .A => { p with storedA := r }
  | .B => { p with storedB := r }

/-- two freshly created, not yet linked entities: each records its own identifier only -/
def fresh (uidA uidB : Nat) (pa pb : Params) : Pair :=
  let ra : Rec := { idA := some uidA, idB := none, params := pa }
  let rb : Rec := { idA := none, idB := some uidB, params := pb }
  { uidA := uidA, uidB := uidB, live := .split ra rb, storedA := ra, storedB := rb }

/-- `x.transmitters = y`, `x.receivers = y`, `x.base_stations = y`,
    `x.current_electrodes = y`, `x.potential_electrodes = y` with `x` on side `src`:
    the record of the linking side gets both identifiers, becomes the record of both
    entities and is written for both. -/
def link (src : Side) (p : Pair) : Pair :=
  let r := ((p.view src).setId src (p.uid src)).setId src.other (p.uid src.other)
  { p with live := .shared r, storedA := r, storedB := r }

/-- does record `r`, read through side `s`, name the other entity of `p` as partner? -/
def Pair.resolves (p : Pair) (s : Side) (r : Rec) : Bool :=
  r.id s.other == some (p.uid s.other)

/-- `edit_em_metadata({k: v})` (and every property setter built on it) through side `via`;
    `v = none` deletes the key. -/
def edit (writeThrough : Bool) (via : Side) (k : String) (v : Option String) (p : Pair) : Pair :=
  if writeThrough && p.resolves via ((p.view via).setParam k v) then
    { p with live := .shared ((p.view via).setParam k v),
             storedA := (p.view via).setParam k v, storedB := (p.view via).setParam k v }
  else
    ({ p with live := p.live.setSide via ((p.view via).setParam k v) }).setStored via
      ((p.view via).setParam k v)

/-- close and re-open: every entity reads its own stored record -/
def reopen (p : Pair) : Pair :=
  { p with live := .split p.storedA p.storedB }

/-- a copied entity whose partner was not copied -/
structure Lone where
  side : Side
  uid : Nat
  record : Rec

/-- `x.copy(...)` with `x` on side `via`.  The partner is copied and linked when `x`
    resolves its partner and (`linkData`) the data that tells which part of the partner
    belongs to the copy exists (always for moving-loop/airborne/tipper pairs; the
    `Transmitter ID` / `A-B Cell ID` data of both sides for large-loop / direct-current
    pairs). -/
def copyParams (carry : Bool) (via : Side) (p : Pair) : Params :=
  if carry then (p.view via).params else Params.empty

/-- the two copies: one record naming the two new identifiers, stored for both -/
def copyPair (ps : Params) (newA newB : Nat) : Pair :=
  { uidA := newA, uidB := newB,
    live := .shared { idA := some newA, idB := some newB, params := ps },
    storedA := { idA := some newA, idB := some newB, params := ps },
    storedB := { idA := some newA, idB := some newB, params := ps } }

/-- a copy without partner: EM entities (`carry`) get the default record with their own
    identifier and the parameters; direct-current electrodes get no metadata at all -/
def copyLone (carry : Bool) (ps : Params) (via : Side) (u : Nat) : Lone :=
  { side := via, uid := u,
    record := if carry then ({ idA := none, idB := none, params := ps } : Rec).setId via u
              else { idA := none, idB := none, params := Params.empty } }

def copy (carry linkData : Bool) (via : Side) (newA newB : Nat) (p : Pair) : Pair ⊕ Lone :=
  if p.resolves via (p.view via) && linkData then
    .inl (copyPair (copyParams carry via p) newA newB)
  else
    .inr (copyLone carry (copyParams carry via p) via (via.pick newA newB))

structure Cfg where
  writeThrough : Bool
  carry : Bool

inductive Op where
  | link (i : Nat) (src : Side)
  | edit (i : Nat) (via : Side) (k : String) (v : Option String)
  | reopen
  | copy (i : Nat) (via : Side) (newA newB : Nat) (linkData : Bool)

structure World where
  pairs : List Pair
  lones : List Lone

/-- what an operation does to the pair at index `j` -/
def onPair (c : Cfg) (j : Nat) (p : Pair) : Op → Pair
  | .link i s => if i = j then link s p else p
  | .edit i s k v => if i = j then edit c.writeThrough s k v p else p
  | .reopen => reopen p
  | .copy .. => p

def step (c : Cfg) (w : World) (op : Op) : World :=
  match op with
  | .copy i via nA nB ld =>
    match w.pairs[i]? with
    | none => w
    | some p =>
      match copy c.carry ld via nA nB p with
      | .inl q => { w with pairs := w.pairs ++ [q] }
      | .inr l => { w with lones := w.lones ++ [l] }
  | op => { w with pairs := w.pairs.mapIdx fun j p => onPair c j p op }

def run (c : Cfg) (w : World) (ops : List Op) : World := ops.foldl (step c) w

end GeoVerif.Pair
