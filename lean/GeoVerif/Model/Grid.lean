/-
M5 `Grid` — derived geometry and the format's indexing conventions (C17).

  `BlockModel.centroids`  (objects/block_model.py): `meshgrid(u, v, z)` + `ravel`
  `Grid2D.centroids`      (objects/grid2d.py):      `meshgrid(u, v)` + `ravel`
  cell centres            `cumsum(cells) - cells/2`, `cells = d[1:] - d[:-1]`
  rotation / dip          matrices with `c = cos`, `s = sin` as *parameters*
  `Octree.base_refine`, `Octree.centroids` (objects/octree.py)
  `Curve.cells` from `parts` (objects/curve.py)

Coordinates are exact rationals (`Rat`, core Lean).
-/
namespace GeoVerif.Grid

/-- `np.meshgrid(u, v, z)` (indexing='xy') followed by `ravel`: v outermost, then u, then z -/
def blockLocal (cu cv cz : List Rat) : List (Rat × Rat × Rat) :=
  cv.flatMap fun v => cu.flatMap fun u => cz.map fun z => (u, v, z)

/-- `np.meshgrid(u, v)` + `ravel`: v outer, u inner -/
def grid2dLocal (cu cv : List Rat) : List (Rat × Rat) :=
  cv.flatMap fun v => cu.map fun u => (u, v)

def diffs : List Rat → List Rat
  | a :: b :: rest => (b - a) :: diffs (b :: rest)
  | _ => []

def cumsumFrom (acc : Rat) : List Rat → List Rat
  | [] => []
  | x :: xs => (acc + x) :: cumsumFrom (acc + x) xs

def cumsum (l : List Rat) : List Rat := cumsumFrom 0 l

/-- `np.cumsum(cells) - cells / 2.0` with `cells = d[1:] - d[:-1]` -/
def centers (d : List Rat) : List Rat :=
  List.zipWith (fun c x => c - x / 2) (cumsum (diffs d)) (diffs d)

/-- Grid2D: `cumsum(ones(n) * h) - h / 2` -/
def centersUniform (n : Nat) (h : Rat) : List Rat :=
  (cumsum (List.replicate n h)).map (· - h / 2)

/-- rotation about the vertical axis: `[[c, -s, 0], [s, c, 0], [0, 0, 1]] @ p` -/
def rotZ (c s : Rat) (p : Rat × Rat × Rat) : Rat × Rat × Rat :=
  (c * p.1 - s * p.2.1, s * p.1 + c * p.2.1, p.2.2)

/-- `yz_rotation_matrix`: `[[1, 0, 0], [0, c, -s], [0, s, c]] @ p` -/
def rotX (c s : Rat) (p : Rat × Rat × Rat) : Rat × Rat × Rat :=
  (p.1, c * p.2.1 - s * p.2.2, s * p.2.1 + c * p.2.2)

def translate (o p : Rat × Rat × Rat) : Rat × Rat × Rat :=
  (p.1 + o.1, p.2.1 + o.2.1, p.2.2 + o.2.2)

def blockCentroids (o : Rat × Rat × Rat) (c s : Rat) (du dv dz : List Rat) :
    List (Rat × Rat × Rat) :=
  (blockLocal (centers du) (centers dv) (centers dz)).map fun p => translate o (rotZ c s p)

def grid2dCentroids (o : Rat × Rat × Rat) (c s cd sd : Rat) (nu nv : Nat) (hu hv : Rat) :
    List (Rat × Rat × Rat) :=
  (grid2dLocal (centersUniform nu hu) (centersUniform nv hv)).map fun p =>
    translate o (rotZ c s (rotX cd sd (p.1, p.2, 0)))

/-! ### Octree -/

structure OCell where
  i : Nat
  j : Nat
  k : Nat
  n : Nat
deriving Repr, DecidableEq

/-- `np.arange(0, count, step)` -/
def arange (count step : Nat) : List Nat :=
  if step = 0 then [] else (List.range ((count + step - 1) / step)).map (· * step)

/-- `Octree.base_refine` for power-of-two counts: cubes of `m = min(u, v, w)` base cells;
    `meshgrid(j-range, k-range, i-range)` flattened: k outer, j middle, i inner -/
def octreeBase (u v w : Nat) : List OCell :=
  let m := min u (min v w)
  (arange w m).flatMap fun k => (arange v m).flatMap fun j => (arange u m).map fun i => ⟨i, j, k, m⟩

def OCell.covers (c : OCell) (a b d : Nat) : Bool :=
  c.i ≤ a && a < c.i + c.n && c.j ≤ b && b < c.j + c.n && c.k ≤ d && d < c.k + c.n

/-- `(I + NCells / 2) * cell_size` per axis -/
def octreeLocal (hu hv hw : Rat) (c : OCell) : Rat × Rat × Rat :=
  (((c.i : Rat) + (c.n : Rat) / 2) * hu, ((c.j : Rat) + (c.n : Rat) / 2) * hv,
   ((c.k : Rat) + (c.n : Rat) / 2) * hw)

def octreeCentroids (o : Rat × Rat × Rat) (c s hu hv hw : Rat) (cells : List OCell) :
    List (Rat × Rat × Rat) :=
  cells.map fun x => translate o (rotZ c s (octreeLocal hu hv hw x))

/-! ### Curve: segments from part labels -/

/-- indices of the vertices carrying label `p`, ascending (`np.where(parts == p)[0]`) -/
def whereEq (parts : List Int) (p : Int) : List Nat :=
  (List.range parts.length).filter fun i => parts[i]? == some p

def insertSorted (x : Int) : List Int → List Int
  | [] => [x]
  | y :: ys => if x < y then x :: y :: ys else if x = y then y :: ys else y :: insertSorted x ys

/-- `np.unique(parts)` -/
def uniqueSorted (l : List Int) : List Int := l.foldr insertSorted []

def consecutivePairs : List Nat → List (Nat × Nat)
  | a :: b :: rest => (a, b) :: consecutivePairs (b :: rest)
  | _ => []

/-- `Curve.cells` when `parts` was assigned -/
def cellsOfParts (parts : List Int) : List (Nat × Nat) :=
  (uniqueSorted parts).flatMap fun p => consecutivePairs (whereEq parts p)

end GeoVerif.Grid
