/-
M7 `Py` — a small deep embedding of the Python values that occur in ui.json dictionaries, and the
total primitives the T2 translator (harness/translate/py2lean.py) maps Python expressions to.

Floats are exact rationals (every finite float is one); `inf`/`nan` are separate constructors;
`uuid` carries the canonical 32-hex-digit form; `ws p` stands for a Workspace object opened on
path `p`; `ent u` for a workspace entity with identifier `u`.
-/
namespace GeoVerif.Py

inductive PyVal where
  | none
  | bool (b : Bool)
  | int (i : Int)
  | flt (q : Rat)
  | inf (neg : Bool)
  | nan
  | str (s : String)
  | uuid (u : String)
  | ws (path : String)
  | ent (u : String)
  | list (l : List PyVal)
  | dict (kv : List (String × PyVal))
deriving Repr, Inhabited

inductive PyErr | keyError | typeError | valueError | indexError | attributeError
deriving DecidableEq, Repr

abbrev PyM := Except PyErr

open PyVal

/-- numeric value of bool / int / finite float (Python compares these by value) -/
def num? : PyVal → Option Rat
  | .bool b => some (if b then 1 else 0)
  | .int i => some i
  | .flt q => some q
  | _ => Option.none

mutual
/-- Python `==` -/
def pyEq : PyVal → PyVal → Bool
  | .none, .none => true
  | .nan, .nan => false                     -- nan != nan
  | .inf a, .inf b => a == b
  | .str a, .str b => a == b
  | .uuid a, .uuid b => a == b
  | .ws a, .ws b => a == b
  | .ent a, .ent b => a == b
  | .list a, .list b => pyEqL a b
  | .dict a, .dict b => pyEqD a b
  | a, b => match num? a, num? b with
    | some x, some y => x == y
    | _, _ => false
def pyEqL : List PyVal → List PyVal → Bool
  | [], [] => true
  | x :: xs, y :: ys => pyEq x y && pyEqL xs ys
  | _, _ => false
def pyEqD : List (String × PyVal) → List (String × PyVal) → Bool
  | [], [] => true
  | (k, x) :: xs, (l, y) :: ys => k == l && pyEq x y && pyEqD xs ys     -- same insertion order (sufficient here)
  | _, _ => false
end

/-- Python truthiness -/
def truthy : PyVal → Bool
  | .none => false
  | .bool b => b
  | .int i => i != 0
  | .flt q => q != 0
  | .str s => s != ""
  | .list l => !l.isEmpty
  | .dict d => !d.isEmpty
  | _ => true

def isDict : PyVal → Bool
  | .dict _ => true
  | _ => false
def isStr : PyVal → Bool
  | .str _ => true
  | _ => false
def isList : PyVal → Bool
  | .list _ => true
  | _ => false
/-- `isinstance(v, (int, float))` — bool is an int in Python -/
def isNumber : PyVal → Bool
  | .bool _ | .int _ | .flt _ | .inf _ | .nan => true
  | _ => false
def isUuid : PyVal → Bool
  | .uuid _ => true
  | _ => false

def keyStr : PyVal → PyM String
  | .str s => .ok s
  | _ => .error .typeError          -- only string keys occur in ui.json dictionaries

/-- `d[k]` -/
def getItem (d k : PyVal) : PyM PyVal :=
  match d with
  | .dict kv => do
    let s ← keyStr k
    match kv.lookup s with
    | some v => .ok v
    | Option.none => .error .keyError
  | .list l => match k with
    | .int i => if 0 ≤ i then (match l[i.toNat]? with | some v => .ok v | Option.none => .error .indexError)
                else (match l[(l.length : Int) + i |>.toNat]? with
                      | some v => if -(l.length : Int) ≤ i then .ok v else .error .indexError
                      | Option.none => .error .indexError)
    | _ => .error .typeError
  | _ => .error .typeError

/-- `d.get(k, default)` -/
def getD (d k dflt : PyVal) : PyM PyVal :=
  match d with
  | .dict kv => do
    let s ← keyStr k
    .ok ((kv.lookup s).getD dflt)
  | _ => .error .attributeError

/-- `k in c` for dict (keys), list (elements, by `==`), str (substring is not needed: equality of
    whole strings only occurs through lists) -/
def contains (k c : PyVal) : PyM Bool :=
  match c with
  | .dict kv => match k with
    | .str s => .ok (kv.any (·.1 == s))
    | _ => .ok false
  | .list l => .ok (l.any (pyEq k))
  | _ => .error .typeError

/-- `d[k] = v` on a local dictionary (insertion order kept, existing key replaced in place) -/
def setItem (d k v : PyVal) : PyM PyVal :=
  match d with
  | .dict kv => do
    let s ← keyStr k
    if kv.any (·.1 == s) then .ok (.dict (kv.map fun e => if e.1 == s then (s, v) else e))
    else .ok (.dict (kv ++ [(s, v)]))
  | _ => .error .typeError

/-- `d.items()` -/
def items (d : PyVal) : PyM (List (PyVal × PyVal)) :=
  match d with
  | .dict kv => .ok (kv.map fun e => (.str e.1, e.2))
  | _ => .error .attributeError

/-- `list(d.keys())` -/
def keys (d : PyVal) : PyM PyVal :=
  match d with
  | .dict kv => .ok (.list (kv.map fun e => .str e.1))
  | _ => .error .attributeError

/-- `a & b` (bitwise and; bools are ints) -/
def bitAnd (a b : PyVal) : PyM PyVal :=
  match a, b with
  | .bool x, .bool y => .ok (.bool (x && y))
  | .bool x, .int y => .ok (.int (if x then y % 2 else 0))      -- True & n = n & 1
  | .int x, .bool y => .ok (.int (if y then x % 2 else 0))
  | _, _ => .error .typeError

/-- `str(v)` for the cases the mappers use -/
def pyStr : PyVal → String
  | .inf false => "inf"
  | .inf true => "-inf"
  | .nan => "nan"
  | .str s => s
  | .uuid u => u
  | .none => "None"
  | .bool true => "True"
  | .bool false => "False"
  | .int i => toString i
  | _ => "<obj>"

/-- `np.isfinite(v)` on numbers -/
def isFinite : PyVal → Bool
  | .inf _ | .nan => false
  | _ => true

/-- `float(s)` for the two strings `str2inf` passes -/
def floatOfStr (v : PyVal) : PyM PyVal :=
  match v with
  | .str "inf" => .ok (.inf false)
  | .str "-inf" => .ok (.inf true)
  | _ => .error .valueError

def hexDigit (c : Char) : Bool := c.isDigit || ('a' ≤ c && c ≤ 'f') || ('A' ≤ c && c ≤ 'F')

/-- `uuid.UUID(str(v))`: strip `urn:`, `uuid:`, braces and hyphens, then exactly 32 hex digits -/
def uuidParse (v : PyVal) : Option String :=
  match v with
  | .uuid u => some u
  | .str s =>
    let s1 := (s.replace "urn:" "").replace "uuid:" ""
    let s2 := s1.toList.filter (fun c => c != '{' && c != '}' && c != '-')
    if s2.length == 32 && s2.all hexDigit then some (String.ofList (s2.map Char.toLower)) else Option.none
  | .int i => if 0 ≤ i && (toString i).length == 32 then some (toString i) else Option.none   -- 32 decimal digits parse as hex
  | _ => Option.none

/-- `"{" + str(u) + "}"` keeps the canonical digits (hyphenation is presentation only) -/
def braced (u : String) : PyVal := .str ("{" ++ u ++ "}")

/-! ### monadic combinators used by the translator (every Python sub-expression is a `PyM` term, so
evaluation order and short-circuiting are explicit) -/

def bind1 {α β} (f : α → PyM β) (a : PyM α) : PyM β := a >>= f
def bind2 {α β γ} (f : α → β → PyM γ) (a : PyM α) (b : PyM β) : PyM γ := do let x ← a; let y ← b; f x y
def bind3 {α β γ δ} (f : α → β → γ → PyM δ) (a : PyM α) (b : PyM β) (c : PyM γ) : PyM δ := do
  let x ← a; let y ← b; let z ← c; f x y z
def map1 {α β} (f : α → β) (a : PyM α) : PyM β := a >>= fun x => pure (f x)
def map2 {α β γ} (f : α → β → γ) (a : PyM α) (b : PyM β) : PyM γ := do let x ← a; let y ← b; pure (f x y)
/-- `a and b` as a condition -/
def pyAndM (a : PyM Bool) (b : Unit → PyM Bool) : PyM Bool := do if (← a) then b () else pure false
/-- `a or b` as a condition -/
def pyOrM (a : PyM Bool) (b : Unit → PyM Bool) : PyM Bool := do if (← a) then pure true else b ()
def pyNotM (a : PyM Bool) : PyM Bool := a >>= fun x => pure (!x)
/-- `x if c else y` -/
def iteM {α} (c : PyM Bool) (a b : Unit → PyM α) : PyM α := do if (← c) then a () else b ()
/-- `all(k in d.keys() for k in ks)` -/
def allKeysIn (ks : List String) (d : PyVal) : Bool :=
  match d with
  | .dict kv => ks.all fun k => kv.any (·.1 == k)
  | _ => false
def isNone : PyVal → Bool
  | .none => true
  | _ => false
def isNan : PyVal → Bool
  | .nan => true
  | _ => false
/-- a Python value used where a condition is expected -/
def asBool (v : PyM PyVal) : PyM Bool := v >>= fun x => pure (truthy x)
def ofBool (b : PyM Bool) : PyM PyVal := b >>= fun x => pure (PyVal.bool x)

end GeoVerif.Py
