/-
M7 `Py` — a small deep embedding of the Python values that occur in ui.json dictionaries, and the
total primitives the T2 translator (harness/translate/py2lean.py) maps Python expressions to.

Floats are exact rationals (every finite float is one); `inf`/`nan` are separate constructors;
`uuid` carries the canonical 32-hex-digit form; `ws p` stands for a Workspace object opened on
path `p`; `ent u` for a workspace entity with identifier `u`.
-/
namespace GeoVerif.Py

inductive PyVal where
  | none
  | bool (b : Bool)
  | int (i : Int)
  | flt (q : Rat)
  | inf (neg : Bool)
  | nan
  | str (s : String)
  | uuid (u : String)
  | ws (path : String)
  | ent (u : String)
  | list (l : List PyVal)
  | dict (kv : List (String × PyVal))
deriving Repr, Inhabited

inductive PyErr | keyError | typeError | valueError | indexError | attributeError
deriving DecidableEq, Repr

abbrev PyM := Except PyErr

open PyVal

/-- numeric value of bool / int / finite float (Python compares these by value) -/
def num? : PyVal → Option Rat
  | .bool b => some (if b then 1 else 0)
  | .int i => some i
  | .flt q => some q
  | _ => Option.none

mutual
/-- Python `==` -/
def pyEq : PyVal → PyVal → Bool
  | .none, .none => true
  | .nan, .nan => false                     -- nan != nan
  | .inf a, .inf b => a == b
  | .str a, .str b => a == b
  | .uuid a, .uuid b => a == b
  | .ws a, .ws b => a == b
  | .ent a, .ent b => a == b
  | .list a, .list b => pyEqL a b
  | .dict a, .dict b => pyEqD a b
  | a, b => match num? a, num? b with
    | some x, some y => x == y
    | _, _ => false
def pyEqL : List PyVal → List PyVal → Bool
  | [], [] => true
  | x :: xs, y :: ys => pyEq x y && pyEqL xs ys
  | _, _ => false
def pyEqD : List (String × PyVal) → List (String × PyVal) → Bool
  | [], [] => true
  | (k, x) :: xs, (l, y) :: ys => k == l && pyEq x y && pyEqD xs ys     -- same insertion order (sufficient here)
  | _, _ => false
end

/-- Python truthiness -/
def truthy : PyVal → Bool
  | .none => false
  | .bool b => b
  | .int i => i != 0
  | .flt q => q != 0
  | .str s => s != ""
  | .list l => !l.isEmpty
  | .dict d => !d.isEmpty
  | _ => true

def isDict : PyVal → Bool
  | .dict _ => true
  | _ => false
def isStr : PyVal → Bool
  | .str _ => true
  | _ => false
def isList : PyVal → Bool
  | .list _ => true
  | _ => false
/-- `isinstance(v, (int, float))` — bool is an int in Python -/
def isNumber : PyVal → Bool
  | .bool _ | .int _ | .flt _ | .inf _ | .nan => true
  | _ => false
/-- `isinstance(v, float)` -/
def isFloat : PyVal → Bool
  | .flt _ | .inf _ | .nan => true
  | _ => false
/-- `isinstance(v, (str, UUID))` -/
def isStrOrUuid : PyVal → Bool
  | .str _ | .uuid _ => true
  | _ => false
def isUuid : PyVal → Bool
  | .uuid _ => true
  | _ => false

def keyStr : PyVal → PyM String
  | .str s => .ok s
  | _ => .error .typeError          -- only string keys occur in ui.json dictionaries

/-- `d[k]` -/
def getItem (d k : PyVal) : PyM PyVal :=
  match d with
  | .dict kv => do
    let s ← keyStr k
    match kv.lookup s with
    | some v => .ok v
    | Option.none => .error .keyError
  | .list l => match k with
    | .int i => if 0 ≤ i then (match l[i.toNat]? with | some v => .ok v | Option.none => .error .indexError)
                else (match l[(l.length : Int) + i |>.toNat]? with
                      | some v => if -(l.length : Int) ≤ i then .ok v else .error .indexError
                      | Option.none => .error .indexError)
    | _ => .error .typeError
  | _ => .error .typeError

/-- `d.get(k, default)` -/
def getD (d k dflt : PyVal) : PyM PyVal :=
  match d with
  | .dict kv => do
    let s ← keyStr k
    .ok ((kv.lookup s).getD dflt)
  | _ => .error .attributeError

/-- `k in c` for dict (keys), list (elements, by `==`), str (substring is not needed: equality of
    whole strings only occurs through lists) -/
def contains (k c : PyVal) : PyM Bool :=
  match c with
  | .dict kv => match k with
    | .str s => .ok (kv.any (·.1 == s))
    | _ => .ok false
  | .list l => .ok (l.any (pyEq k))
  | _ => .error .typeError

/-- `d[k] = v` on a local dictionary (insertion order kept, existing key replaced in place) -/
def setItem (d k v : PyVal) : PyM PyVal :=
  match d with
  | .dict kv => do
    let s ← keyStr k
    if kv.any (·.1 == s) then .ok (.dict (kv.map fun e => if e.1 == s then (s, v) else e))
    else .ok (.dict (kv ++ [(s, v)]))
  | _ => .error .typeError

/-- `d.items()` -/
def items (d : PyVal) : PyM (List (PyVal × PyVal)) :=
  match d with
  | .dict kv => .ok (kv.map fun e => (.str e.1, e.2))
  | _ => .error .attributeError

/-- `list(d.keys())` -/
def keys (d : PyVal) : PyM PyVal :=
  match d with
  | .dict kv => .ok (.list (kv.map fun e => .str e.1))
  | _ => .error .attributeError

/-- `a & b` (bitwise and; bools are ints) -/
def bitAnd (a b : PyVal) : PyM PyVal :=
  match a, b with
  | .bool x, .bool y => .ok (.bool (x && y))
  | .bool x, .int y => .ok (.int (if x then y % 2 else 0))      -- True & n = n & 1
  | .int x, .bool y => .ok (.int (if y then x % 2 else 0))
  | _, _ => .error .typeError

/-- `str(uuid.UUID(hex=u))`: the 8-4-4-4-12 presentation of 32 digits -/
def hyphenate (u : String) : String :=
  let l := u.toList
  String.ofList (l.take 8 ++ '-' :: (l.drop 8).take 4 ++ '-' :: (l.drop 12).take 4 ++ '-' :: (l.drop 16).take 4 ++ '-' :: l.drop 20)

/-- `str(v)` for the cases the mappers use -/
def pyStr : PyVal → String
  | .inf false => "inf"
  | .inf true => "-inf"
  | .nan => "nan"
  | .str s => s
  | .uuid u => hyphenate u
  | .none => "None"
  | .bool true => "True"
  | .bool false => "False"
  | .int i => toString i
  | _ => "<obj>"

/-- `np.isfinite(v)` on numbers -/
def isFinite : PyVal → Bool
  | .inf _ | .nan => false
  | _ => true

/-- `float(s)` for the two strings `str2inf` passes -/
def floatOfStr (v : PyVal) : PyM PyVal :=
  match v with
  | .str "inf" => .ok (.inf false)
  | .str "-inf" => .ok (.inf true)
  | _ => .error .valueError

def hexDigit (c : Char) : Bool := c.isDigit || ('a' ≤ c && c ≤ 'f') || ('A' ≤ c && c ≤ 'F')

/-- `l.replace(pat, "")` on character lists (left to right, non-overlapping); the fuel is the length of the input -/
def removeAllAux (pat : List Char) : Nat → List Char → List Char
  | 0, l => l
  | _ + 1, [] => []
  | n + 1, c :: cs =>
    if pat.isPrefixOf (c :: cs) then removeAllAux pat n (cs.drop (pat.length - 1)) else c :: removeAllAux pat n cs
def removeAll (pat : List Char) (l : List Char) : List Char := removeAllAux pat l.length l

def isBrace (c : Char) : Bool := c == '{' || c == '}'
/-- `s.strip("{}")` -/
def stripBraces (l : List Char) : List Char := ((l.dropWhile isBrace).reverse.dropWhile isBrace).reverse

/-- the hexadecimal text `uuid.UUID(s)` ends up with: `urn:` and `uuid:` removed, braces stripped at both ends,
    hyphens removed -/
def uuidHex (l : List Char) : List Char :=
  (stripBraces (removeAll "uuid:".toList (removeAll "urn:".toList l))).filter (· != '-')

/-- `uuid.UUID(str(v))`: exactly 32 hexadecimal digits must remain (Python's `int(hex, 16)` additionally tolerates
    surrounding whitespace, a sign, a `0x` prefix and single underscores; strings of that form are outside the model
    and are not generated) -/
def uuidParseStr (s : String) : Option String :=
  let h := uuidHex s.toList
  if h.length == 32 && h.all hexDigit then some (String.ofList (h.map Char.toLower)) else Option.none

def uuidParse (v : PyVal) : Option String :=
  match v with
  | .uuid u => some u
  | .str s => uuidParseStr s
  | .int i => uuidParseStr (toString i)          -- `str(i)`: 32 decimal digits (a minus sign is a hyphen) parse as hex
  | _ => Option.none

/-- split a character list at every `sep` -/
def splitAt (sep : Char) : List Char → List (List Char)
  | [] => [[]]
  | c :: cs =>
    match splitAt sep cs with
    | [] => [[c]]                                  -- unreachable: the result is never empty
    | w :: rest => if c == sep then [] :: w :: rest else (c :: w) :: rest

/-- `Path(s).suffix == ".geoh5"`: the last non-trivial path component ends in `.geoh5` and is longer than that -/
def geoh5Path (s : String) : Bool :=
  match ((splitAt '/' s.toList).filter (fun c => c != [] && c != ['.'])).getLast? with
  | some name => name.length > 6 && ".geoh5".toList.isSuffixOf name
  | Option.none => false

/-- `ui_json.utils.path2workspace` (hand model): a string whose suffix is `.geoh5` is opened as a workspace -/
def path2workspace (v : PyVal) : PyM PyVal :=
  match v with
  | .str s => if geoh5Path s then .ok (.ws s) else .ok v
  | _ => .ok v

/-- `ui_json.utils.workspace2path` (hand model): a workspace becomes the path of its file -/
def workspace2path (v : PyVal) : PyM PyVal :=
  match v with
  | .ws p => .ok (.str p)
  | _ => .ok v

/-- `ui_json.utils.container_group2name` (hand model): in `demote` it runs after `entity2uuid`, so it never sees an
    entity; on an entity it would return the group's name, which the model renders as a marked string -/
def container_group2name (v : PyVal) : PyM PyVal :=
  match v with
  | .ent u => .ok (.str ("<name of " ++ u ++ ">"))
  | _ => .ok v

/-- `"{" + str(u) + "}"` -/
def braced (u : String) : PyVal := .str ("{" ++ u ++ "}")

/-! ### monadic combinators used by the translator (every Python sub-expression is a `PyM` term, so
evaluation order and short-circuiting are explicit) -/

def bind1 {α β} (f : α → PyM β) (a : PyM α) : PyM β := a >>= f
def bind2 {α β γ} (f : α → β → PyM γ) (a : PyM α) (b : PyM β) : PyM γ := do let x ← a; let y ← b; f x y
def bind3 {α β γ δ} (f : α → β → γ → PyM δ) (a : PyM α) (b : PyM β) (c : PyM γ) : PyM δ := do
  let x ← a; let y ← b; let z ← c; f x y z
def map1 {α β} (f : α → β) (a : PyM α) : PyM β := a >>= fun x => pure (f x)
def map2 {α β γ} (f : α → β → γ) (a : PyM α) (b : PyM β) : PyM γ := do let x ← a; let y ← b; pure (f x y)
/-- `a and b` as a condition -/
def pyAndM (a : PyM Bool) (b : Unit → PyM Bool) : PyM Bool := do if (← a) then b () else pure false
/-- `a or b` as a condition -/
def pyOrM (a : PyM Bool) (b : Unit → PyM Bool) : PyM Bool := do if (← a) then pure true else b ()
def pyNotM (a : PyM Bool) : PyM Bool := a >>= fun x => pure (!x)
/-- `x if c else y` -/
def iteM {α} (c : PyM Bool) (a b : Unit → PyM α) : PyM α := do if (← c) then a () else b ()
/-- `all(k in d.keys() for k in ks)` -/
def allKeysIn (ks : List String) (d : PyVal) : Bool :=
  match d with
  | .dict kv => ks.all fun k => kv.any (·.1 == k)
  | _ => false
def isNone : PyVal → Bool
  | .none => true
  | _ => false
def isNan : PyVal → Bool
  | .nan => true
  | _ => false
/-- `hasattr(v, "uid")`: entities and property groups carry an identifier -/
def hasUid : PyVal → Bool
  | .ent _ => true
  | _ => false
/-- `v.uid` -/
def getUid : PyVal → PyM PyVal
  | .ent u => .ok (.uuid u)
  | _ => .error .attributeError
/-- a Python value used where a condition is expected -/
def asBool (v : PyM PyVal) : PyM Bool := v >>= fun x => pure (truthy x)
def ofBool (b : PyM Bool) : PyM PyVal := b >>= fun x => pure (PyVal.bool x)

end GeoVerif.Py
