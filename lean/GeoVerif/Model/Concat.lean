/-
M2 `Concat` — the concatenated (drillhole-group) storage of geoh5py.

Models, statement by statement, `geoh5py/shared/concatenation/concatenator.py`:
  `fetch_index`            → `findUnique`
  `delete_index_data`      → `deleteAt`
  `fetch_start_index`      → `startIndex`
  `update_array_attribute` → `put` (values given) / `drop` (`remove=True` or values `None`)
  `fetch_values`           → `get`

A *channel* is what the code keeps per label: `self.index[label]` (rows
`(Start index, Size, Object ID, Data ID)`) and `self.data[label]` (the concatenated
array).  Identifiers are naturals (the harness numbers the uuids), array entries are
opaque tokens of type `α`.

Core Lean only (no Mathlib) so that the driver can run this file.
-/
namespace GeoVerif.Concat

structure Row where
  start : Nat
  size  : Nat
  obj   : Nat
  dat   : Nat
deriving Repr, DecidableEq, Inhabited

structure Chan (α : Type) where
  rows : List Row
  data : List α
deriving Repr

/-- `np.delete(xs, arange(s, s+n))` for an in-range slice. -/
def cut {α} (xs : List α) (s n : Nat) : List α := xs.take s ++ xs.drop (s + n)

/-- `xs[s : s+n]` -/
def slice {α} (xs : List α) (s n : Nat) : List α := (xs.drop s).take n

/-- The identifier a lookup compares with: `Data ID` for a `ConcatenatedData`
    (`kd = true`), `Object ID` otherwise. -/
def Row.key (kd : Bool) (r : Row) : Nat := if kd then r.dat else r.obj

/-- `np.where(index[field][...] == uid)[0]`, offsets counted from `off`. -/
def matchIdxs (kd : Bool) (u : Nat) : Nat → List Row → List Nat
  | _, [] => []
  | off, r :: rs =>
    if r.key kd == u then off :: matchIdxs kd u (off + 1) rs else matchIdxs kd u (off + 1) rs

/-- `fetch_index`: the row index iff exactly one row matches (`len(ind) == 1`). -/
def findUnique {α} (kd : Bool) (c : Chan α) (u : Nat) : Option Nat :=
  match matchIdxs kd u 0 c.rows with
  | [i] => some i
  | _ => none

/-- `delete_index_data(label, index)` -/
def deleteAt {α} (c : Chan α) (i : Nat) : Chan α :=
  match c.rows[i]? with
  | none => c
  | some r =>
    { data := cut c.data r.start r.size
      rows := (c.rows.map fun q =>
                if q.start > r.start then { q with start := q.start - r.size } else q).eraseIdx i }

def sumSizes (rows : List Row) : Nat := (rows.map (·.size)).sum

/-- `fetch_start_index` for a label that exists: returns the channel after the deletion of
    the old slice (if a unique row was found) and the start for the appended slice. -/
def startIndex {α} (kd : Bool) (c : Chan α) (u : Nat) : Chan α × Nat :=
  match findUnique kd c u with
  | some i => let c' := deleteAt c i; (c', c'.data.length)
  | none => (c, sumSizes c.rows)

/-- `update_array_attribute(entity, field)` with values: delete old, append new. -/
def put {α} (kd : Bool) (c : Chan α) (o d : Nat) (v : List α) : Chan α :=
  let u := if kd then d else o
  let (c', start) := startIndex kd c u
  { rows := c'.rows ++ [{ start := start, size := v.length, obj := o, dat := d }]
    data := c'.data ++ v }

/-- `update_array_attribute(entity, field, remove=True)` (or values `None`). -/
def drop {α} (kd : Bool) (c : Chan α) (u : Nat) : Chan α :=
  (startIndex kd c u).1

/-- `fetch_values` -/
def get {α} (kd : Bool) (c : Chan α) (u : Nat) : Option (List α) :=
  match findUnique kd c u with
  | none => none
  | some i =>
    match c.rows[i]? with
    | none => none
    | some r => some (slice c.data r.start r.size)

/-- Two rows occupy disjoint ranges of the array. -/
def Row.disj (a b : Row) : Prop :=
  a.start + a.size ≤ b.start ∨ b.start + b.size ≤ a.start

instance (a b : Row) : Decidable (Row.disj a b) := by unfold Row.disj; infer_instance

/-- The file-level invariant of a channel (C04: "exactly tiled"):
    the sizes add up to the array length, every row lies inside the array, rows are
    pairwise disjoint, and no identifier has two rows. -/
structure Tiled {α} (kd : Bool) (c : Chan α) : Prop where
  total  : sumSizes c.rows = c.data.length
  inside : ∀ r ∈ c.rows, r.start + r.size ≤ c.data.length
  disj   : c.rows.Pairwise Row.disj
  nodup  : (c.rows.map (Row.key kd)).Nodup

/-- Executable version of `Tiled` for the driver (judges the *real* file's rows). -/
def tiledCheck {α} (kd : Bool) (c : Chan α) : Bool :=
  sumSizes c.rows == c.data.length
  && c.rows.all (fun r => r.start + r.size ≤ c.data.length)
  && (List.range c.rows.length).all (fun i => (List.range c.rows.length).all fun j =>
        if i < j then
          match c.rows[i]?, c.rows[j]? with
          | some a, some b =>
              (a.start + a.size ≤ b.start || b.start + b.size ≤ a.start)
              && (a.key kd != b.key kd)
          | _, _ => true
        else true)

/-! ### Store: one channel per label, and the abstract last-write-wins map -/

abbrev Store (α : Type) := List (String × Chan α)

def Store.find? {α} : Store α → String → Option (Chan α)
  | [], _ => none
  | (k, x) :: rest, l => if k == l then some x else Store.find? rest l

def Store.set {α} : Store α → String → Chan α → Store α
  | [], l, c => [(l, c)]
  | (k, x) :: rest, l, c => if k == l then (k, c) :: rest else (k, x) :: Store.set rest l c

/-- One `update_array_attribute` call: `kd` = the entity is a `ConcatenatedData`. -/
inductive Op (α : Type) where
  | put  (label : String) (kd : Bool) (o d : Nat) (v : List α)
  | drop (label : String) (kd : Bool) (u : Nat)
deriving Repr

def Op.label {α} : Op α → String
  | .put l _ _ _ _ => l
  | .drop l _ _ => l

def Op.kd {α} : Op α → Bool
  | .put _ k _ _ _ => k
  | .drop _ k _ => k

/-- One `update_array_attribute` call on the whole store.  A label that does not exist yet
    starts from the empty channel (`start = 0`); `remove` on a missing label does nothing
    to the arrays. -/
def Store.step {α} (s : Store α) : Op α → Store α
  | .put l kd o d v =>
      match s.find? l with
      | some c => s.set l (put kd c o d v)
      | none => s.set l (put kd ⟨[], []⟩ o d v)
  | .drop l kd u =>
      match s.find? l with
      | some c => s.set l (drop kd c u)
      | none => s

/-- The abstract specification: a last-write-wins map `label → identifier → values`. -/
abbrev Spec (α : Type) := String → Nat → Option (List α)

def specStep {α} (m : Spec α) : Op α → Spec α
  | .put l kd o d v => fun l' u' =>
      if l' = l ∧ u' = (if kd then d else o) then some v else m l' u'
  | .drop l _ u => fun l' u' => if l' = l ∧ u' = u then none else m l' u'

/-- What the API reads back (`fetch_values`) for label `l` and identifier `u`; the kind of
    lookup is fixed per label (`kindOf`: data names → `Data ID`, object fields → `Object ID`). -/
def Store.abs {α} (kindOf : String → Bool) (s : Store α) : Spec α :=
  fun l u => (s.find? l).bind fun c => get (kindOf l) c u

end GeoVerif.Concat
