/-
M1 `Ws` — the workspace as a tree of entities and its flat geoh5 file image.

What the public API shows (`Workspace.root` and, recursively, `children`) is a rose tree
`Tree`; the file is the flat layout of the format: one node per entity under its own
identifier in `Data/Groups/Objects`, child entries as links `(kind, uid)` to the flat nodes,
a `Root` link (`geoh5py/io/h5_writer.py`, `h5_reader.py`, `workspace/workspace.py`).

  `fileOf : Tree → File`     what write-through keeps on disk for a tree
  `load   : File → Option Tree`   the reader: from `Root`, recursively through the links
  `step`                     create / set / move / remove / copy / property-group operations

Attribute values and arrays are opaque tokens; identifiers are naturals (the harness numbers
the uuids in order of first appearance).  Core Lean only.
-/
namespace GeoVerif.Ws

inductive Kind | group | object | data
deriving DecidableEq, Repr, Inhabited

structure PG where
  uid : Nat
  name : String
  props : List Nat
deriving DecidableEq, Repr, Inhabited

/-- everything an entity carries except its children -/
structure Ent where
  uid : Nat
  kind : Kind
  cls : String
  typ : Nat
  name : String
  allowDelete : Bool
  attrs : List (String × String)
  dsets : List (String × String)
  pgs : List PG
deriving DecidableEq, Repr, Inhabited

inductive Tree where
  | node (e : Ent) (kids : List Tree)
deriving Repr, Inhabited

def Tree.ent : Tree → Ent
  | .node e _ => e
def Tree.kids : Tree → List Tree
  | .node _ ks => ks

mutual
/-- all subtrees (one per entity), pre-order -/
def Tree.subs : Tree → List Tree
  | .node e ks => .node e ks :: subsL ks
def subsL : List Tree → List Tree
  | [] => []
  | t :: ts => t.subs ++ subsL ts
end

/-- identifiers of all entities of the tree, pre-order -/
def Tree.uids (t : Tree) : List Nat := t.subs.map (·.ent.uid)
def uidsL (ts : List Tree) : List Nat := (subsL ts).map (·.ent.uid)

mutual
def Tree.size : Tree → Nat
  | .node _ ks => 1 + sizeL ks
def sizeL : List Tree → Nat
  | [] => 0
  | t :: ts => t.size + sizeL ts
end

/-! ### the file image -/

structure Node where
  ent : Ent
  links : List (Kind × Nat)       -- child entries, in order
deriving DecidableEq, Repr, Inhabited

structure File where
  root : Option Nat
  nodes : List Node               -- the flat containers
deriving Repr, Inhabited

def linksL (ts : List Tree) : List (Kind × Nat) := ts.map fun t => (t.ent.kind, t.ent.uid)

/-- the stored node of one entity: its attributes and the links to its children -/
def toNode (s : Tree) : Node := ⟨s.ent, linksL s.kids⟩

def Tree.flat (t : Tree) : List Node := t.subs.map toNode

def fileOf (t : Tree) : File := ⟨some t.ent.uid, t.flat⟩

def File.find (f : File) (u : Nat) : Option Node := f.nodes.find? (·.ent.uid == u)

mutual
/-- the reader: build the entity stored under `u` and, through its links, its subtree -/
def loadFrom (f : File) : Nat → Nat → Option Tree
  | 0, _ => none
  | fuel + 1, u =>
    match f.find u with
    | none => none
    | some n => (loadL f fuel n.links).map fun ks => .node n.ent ks
def loadL (f : File) : Nat → List (Kind × Nat) → Option (List Tree)
  | _, [] => some []
  | fuel, (_, u) :: rest =>
    match loadFrom f fuel u, loadL f fuel rest with
    | some t, some ts => some (t :: ts)
    | _, _ => none
end

def load (f : File) : Option Tree :=
  match f.root with
  | none => none
  | some r => loadFrom f (f.nodes.length + 1) r

/-! ### operations on the tree -/

mutual
/-- the subtree rooted at `u` -/
def Tree.findSub : Tree → Nat → Option Tree
  | .node e ks, u => if e.uid = u then some (.node e ks) else findSubL ks u
def findSubL : List Tree → Nat → Option Tree
  | [], _ => none
  | t :: ts, u => match t.findSub u with
    | some s => some s
    | none => findSubL ts u
end

mutual
/-- apply `f` to the entity `u` -/
def Tree.update (f : Ent → Ent) : Tree → Nat → Tree
  | .node e ks, u => if e.uid = u then .node (f e) ks else .node e (updateL f ks u)
def updateL (f : Ent → Ent) : List Tree → Nat → List Tree
  | [], _ => []
  | t :: ts, u => t.update f u :: updateL f ts u
end

mutual
/-- append `c` to the children of `p` -/
def Tree.insert : Tree → Nat → Tree → Tree
  | .node e ks, p, c => if e.uid = p then .node e (ks ++ [c]) else .node e (insertL ks p c)
def insertL : List Tree → Nat → Tree → List Tree
  | [], _, _ => []
  | t :: ts, p, c => t.insert p c :: insertL ts p c
end

mutual
/-- delete the subtree rooted at `u` (never the root itself) -/
def Tree.erase : Tree → Nat → Tree
  | .node e ks, u => .node e (eraseL ks u)
def eraseL : List Tree → Nat → List Tree
  | [], _ => []
  | t :: ts, u => if t.ent.uid = u then eraseL ts u else t.erase u :: eraseL ts u
end

/-- drop removed data from every property group; groups left empty disappear -/
def cleanPG (gone : List Nat) (g : PG) : PG :=
  { uid := g.uid, name := g.name, props := g.props.filter fun d => !gone.contains d }

def cleanPGs (gone : List Nat) (e : Ent) : Ent :=
  { e with pgs := (e.pgs.map (cleanPG gone)).filter fun g => !g.props.isEmpty }

mutual
def Tree.mapEnts (f : Ent → Ent) : Tree → Tree
  | .node e ks => .node (f e) (mapEntsL f ks)
def mapEntsL (f : Ent → Ent) : List Tree → List Tree
  | [] => []
  | t :: ts => t.mapEnts f :: mapEntsL f ts
end

/-- rename identifiers of a copied subtree (`m` = old ↦ new for entities and property groups) -/
def renameEnt (m : List (Nat × Nat)) (e : Ent) : Ent :=
  let r := fun u => (m.lookup u).getD u
  { e with uid := r e.uid,
           pgs := e.pgs.map fun g => { uid := r g.uid, name := g.name, props := g.props.map r } }

inductive Out | ok | refused | missing
deriving DecidableEq, Repr

inductive Op where
  | create (parent : Nat) (e : Ent)
  | setAttr (u : Nat) (key tok : String)
  | setDset (u : Nat) (key tok : String)
  | rename (u : Nat) (name : String)
  | move (u newParent : Nat)
  | remove (u : Nat)
  | detach (u : Nat)                       -- `parent.remove_children([e])`: no permission check
  | setAllowDelete (u : Nat) (b : Bool)
  | setTyp (u typ : Nat)                   -- `entity.entity_type = t`: the node's type link
  | copy (u newParent : Nat) (idmap : List (Nat × Nat))
  | pgSet (obj : Nat) (g : PG)             -- create or replace a property group
  | pgDrop (obj pg : Nat)
deriving Repr

def setKey (l : List (String × String)) (k v : String) : List (String × String) :=
  if l.any (·.1 == k) then l.map fun kv => if kv.1 == k then (k, v) else kv else l ++ [(k, v)]

/-- identifiers of all property groups of the tree -/
def Tree.pgUids (t : Tree) : List Nat := t.subs.flatMap fun s => s.ent.pgs.map (·.uid)

/-- the identifier is used by a property group of an entity other than `o` -/
def Tree.pgUidElsewhere (t : Tree) (o u : Nat) : Bool :=
  t.subs.any fun s => s.ent.uid != o && s.ent.pgs.any (·.uid == u)

def step (t : Tree) : Op → Tree × Out
  | .create p e =>
    if t.uids.contains e.uid || t.pgUids.contains e.uid then (t, .refused)   -- identifier in use: no effect
    else if !e.pgs.isEmpty then (t, .refused)                -- a new entity has no property group yet
    else if !(t.uids.contains p) then (t, .missing)
    else (t.insert p (.node e []), .ok)
  | .setAttr u k v =>
    if t.uids.contains u then (t.update (fun e => { e with attrs := setKey e.attrs k v }) u, .ok)
    else (t, .missing)
  | .setDset u k v =>
    if t.uids.contains u then (t.update (fun e => { e with dsets := setKey e.dsets k v }) u, .ok)
    else (t, .missing)
  | .rename u n =>
    if t.uids.contains u then (t.update (fun e => { e with name := n }) u, .ok) else (t, .missing)
  | .move u p =>
    match t.findSub u with
    | none => (t, .missing)
    | some s =>
      if u = t.ent.uid then (t, .refused)
      else if s.uids.contains p || !(t.uids.contains p) then (t, .refused)   -- into itself / nowhere
      else (((t.erase u).insert p s).mapEnts (cleanPGs [u]), .ok)   -- leaves the old parent's groups
  | .remove u =>
    match t.findSub u with
    | none => (t, .missing)
    | some s =>
      if u = t.ent.uid || !s.ent.allowDelete then (t, .refused)
      else ((t.erase u).mapEnts (cleanPGs s.uids), .ok)
  | .detach u =>
    match t.findSub u with
    | none => (t, .missing)
    | some s =>
      if u = t.ent.uid then (t, .refused)
      else ((t.erase u).mapEnts (cleanPGs s.uids), .ok)
  | .setAllowDelete u b =>
    if t.uids.contains u then (t.update (fun e => { e with allowDelete := b }) u, .ok) else (t, .missing)
  | .setTyp u ty =>
    if t.uids.contains u then (t.update (fun e => { e with typ := ty }) u, .ok) else (t, .missing)
  | .copy u p m =>
    match t.findSub u with
    | none => (t, .missing)
    | some s =>
      let c := s.mapEnts (renameEnt m)
      if !(t.uids.contains p) then (t, .missing)
      else if c.uids.any (t.uids.contains ·) || !c.uids.Nodup then (t, .refused)   -- ids must be fresh
      else (t.insert p c, .ok)
  | .pgSet o g =>
    match t.findSub o with
    | none => (t, .missing)
    | some s =>
      if !(g.props.all fun d => (linksL s.kids).contains (Kind.data, d)) then (t, .refused)  -- only children of `o`
      else if t.uids.contains g.uid || t.pgUidElsewhere o g.uid then (t, .refused)   -- identifier of an entity / of another object's group
      else
        (t.update (fun e => { e with pgs := if e.pgs.any (·.uid == g.uid)
                                            then e.pgs.map fun x => if x.uid == g.uid then g else x
                                            else e.pgs ++ [g] }) o, .ok)
  | .pgDrop o g =>
    if t.uids.contains o then (t.update (fun e => { e with pgs := e.pgs.filter (·.uid != g) }) o, .ok)
    else (t, .missing)

def run (t : Tree) (ops : List Op) : Tree := ops.foldl (fun s op => (step s op).1) t

/-! ### structural validity of a file (C02), executable -/

def parentsOf (f : File) (u : Nat) : List Nat :=
  (f.nodes.filter fun n => n.links.any (·.2 == u)).map (·.ent.uid)

/-- one root; no identifier twice; every link is a link to a stored node of that kind; every
    stored node other than the root has exactly one parent; property groups list only data that
    are children of the same object; every stored node is reachable from the root -/
def wfCheck (f : File) : Bool :=
  match f.root with
  | none => false
  | some r =>
    (f.nodes.map (·.ent.uid)).Nodup
    && (f.find r).isSome
    && f.nodes.all (fun n => n.links.all fun l =>
          match f.find l.2 with
          | some c => c.ent.kind == l.1
          | none => false)
    && f.nodes.all (fun n => if n.ent.uid == r then (parentsOf f n.ent.uid).isEmpty
                             else (parentsOf f n.ent.uid).length == 1)
    && f.nodes.all (fun n => n.ent.pgs.all fun g => g.props.all fun d => n.links.contains (Kind.data, d))
    && (match load f with
        | some t => t.uids.length == f.nodes.length
        | none => false)


/-! ### copies into another workspace: identifier policy -/

/-- the identifier a copied entity gets in the target workspace: its own when that is free there, otherwise
    the fresh one supplied (`Workspace.copy_to_parent`: "assign the same uid if possible") -/
def crossId (used : List Nat) (u fresh : Nat) : Nat := if used.contains u then fresh else u

/-- identifiers of a copied list of entities (`srcs` paired with the fresh identifiers drawn for them), each one
    seeing the identifiers taken by the entities copied before it -/
def crossIds : List Nat → List (Nat × Nat) → List Nat
  | _, [] => []
  | used, (u, f) :: rest => crossId used u f :: crossIds (crossId used u f :: used) rest

end GeoVerif.Ws
