/-
M8 `Valid` — ui.json validation (C15).

Hand-written executable models of
  * the validator classes of geoh5py/shared/validators.py (`required`, `one_of`, `optional`, `types`,
    `uuid`, `association`, `property_group_type`, `values`, `shape`) and the order in which
    `InputValidation.validate` (geoh5py/ui_json/validation.py) runs them;
  * `InputValidation.validate_data` with its rule table (the state that `pop("one_of")` mutated);
  * `EnforcerPool.enforce` with its error list (geoh5py/ui_json/enforcers.py);
  * `Parameter.value`'s setter (geoh5py/ui_json/parameters.py).
Where the code as found was stateful the model has a `Variant`: `.asFound` is the behaviour of the
pinned commit, `.repaired` that of the fixed code; the harness probes which one /repo follows.

Values are `PyVal`s; the workspace is an `Env` listing, for every entity and property group, its kind, its
recursive children and (for property groups) its group type.
-/
import GeoVerif.Model.Py
namespace GeoVerif.Valid
open GeoVerif.Py

inductive Variant | asFound | repaired
deriving DecidableEq, Repr

/-- Python classes that occur in `types` lists -/
inductive Ty | str | uuid | int | float | bool | none | entity | pg | list | ws | dict
deriving DecidableEq, Repr

inductive EKind | entity | pg
deriving DecidableEq, Repr

structure EntInfo where
  uid : String
  kind : EKind
  desc : List String        -- identifiers `fetch_children(e, recursively=True)` yields
  pgType : String           -- `property_group_type` (property groups only)
deriving Repr

structure Env where
  ents : List EntInfo
deriving Repr

def Env.find (env : Env) (u : String) : Option EntInfo := env.ents.find? (·.uid == u)

/-- the validation errors (and the two Python errors the validators can run into) -/
inductive VErr
  | required | atLeastOne | optional | type | uuid | association | propertyGroup | value | shape
  | valueError | attributeError | aggregate
deriving DecidableEq, Repr

abbrev V := Except VErr Unit

/-- `isinstance(v, t)` -/
def isInst (env : Env) (v : PyVal) : Ty → Bool
  | .str => match v with | .str _ => true | _ => false
  | .uuid => match v with | .uuid _ => true | _ => false
  | .int => match v with | .int _ | .bool _ => true | _ => false          -- bool is a subclass of int
  | .float => match v with | .flt _ | .inf _ | .nan => true | _ => false
  | .bool => match v with | .bool _ => true | _ => false
  | .none => match v with | .none => true | _ => false
  | .entity => match v with
      | .ent u => (match env.find u with | some i => i.kind == .entity | none => true)
      | _ => false
  | .pg => match v with
      | .ent u => (match env.find u with | some i => i.kind == .pg | none => false)
      | _ => false
  | .list => match v with | .list _ => true | _ => false
  | .ws => match v with | .ws _ => true | _ => false
  | .dict => match v with | .dict _ => true | _ => false

/-- the `valid` argument of the association validator after `validate_data` resolved it -/
inductive Assoc
  | noneVal                 -- `None`: nothing to check
  | listVal                 -- a list (multi-select parent): ignored with a warning
  | ent (u : String)        -- an Entity
  | ws                      -- the Workspace
  | other                   -- anything else (an unresolved name, an identifier, a number): ValueError
deriving DecidableEq, Repr

/-- the rule dictionary of one parameter; `none` = key absent -/
structure Rules where
  required : Option Bool := none
  oneOf : Option String := none
  optional : Option Bool := none
  types : Option (List Ty) := none
  uuid : Bool := false
  association : Option Assoc := none
  pgType : Option String := none
  values : Option (List PyVal) := none
  shape : Option (List Nat) := none
deriving Repr

/-! ### the validators -/

def vRequired (v : PyVal) (valid : Bool) : V :=
  if isNone v && valid then .error .required else .ok ()

def vOptional (v : PyVal) (valid : Bool) : V :=
  if isNone v && !valid then .error .optional else .ok ()

/-- `TypeValidator`: a list is checked element-wise unless `list` itself is an accepted type -/
def vTypes (env : Env) (v : PyVal) (valid : List Ty) : V :=
  let elems : List PyVal := match v with
    | .list l => if valid.contains .list then [v] else l
    | _ => [v]
  if elems.all (fun x => valid.any (isInst env x)) then .ok () else .error .type

/-- `UUIDValidator`: only strings are examined -/
def vUuid (v : PyVal) : V :=
  match v with
  | .str _ => if (uuidParse v).isSome then .ok () else .error .uuid
  | _ => .ok ()

/-- the identifiers the association validator finds under `valid` -/
def assocChildren (env : Env) : Assoc → List String
  | .ent u => (match env.find u with | some i => i.desc | none => [])
  | .ws => env.ents.map (·.uid)
  | _ => []

def vAssociation (env : Env) (v : PyVal) (valid : Assoc) : V :=
  match valid with
  | .noneVal => .ok ()
  | .listVal => .ok ()
  | .other => .error .valueError
  | a =>
    match v with
    | .uuid u | .ent u => if (assocChildren env a).contains u then .ok () else .error .association
    | _ => .ok ()

/-- `PropertyGroupValidator`: reads `value.property_group_type` of anything that is not `None` -/
def vPropertyGroup (env : Env) (v : PyVal) (valid : String) : V :=
  match v with
  | .none => .ok ()
  | .ent u => (match env.find u with
      | some i => if i.kind == .pg then (if i.pgType == valid then .ok () else .error .propertyGroup)
                  else .error .attributeError
      | none => .error .attributeError)
  | _ => .error .attributeError

def vValues (v : PyVal) (valid : List PyVal) : V :=
  match v with
  | .none => .ok ()
  | _ =>
    let elems : List PyVal := match v with | .list l => l | _ => [v]
    if elems.all (fun x => isNone x || valid.any (pyEq x)) then .ok () else .error .value

def vShape (v : PyVal) (valid : List Nat) : V :=
  match v with
  | .none => .ok ()
  | .list l => if [l.length] == valid then .ok () else .error .shape
  | _ => if [1] == valid then .ok () else .error .shape

/-- `AtLeastOneValidator` on the collected `{parameter: value is not None}` dictionary -/
def vAtLeastOne (flags : List Bool) : V :=
  if flags.any id then .ok () else .error .atLeastOne

structure Options where
  ignoreRequirements : Bool := false
  ignored : Bool := false          -- the parameter's name is in `ignore_list`
deriving Repr

/-- run a validator when its key is present -/
def whenSome {α} (x : Option α) (f : α → V) : V :=
  match x with
  | some a => f a
  | none => .ok ()

def vOneOfDirect (v : PyVal) : V :=
  match v with
  | .dict kv => vAtLeastOne (kv.map fun e => truthy e.2)
  | _ => .error .attributeError

/-- the stages of `InputValidation.validate`, in the order of the code -/
def stages (env : Env) (o : Options) (r : Rules) (v : PyVal) : List V :=
  [ whenSome r.required (fun b => if o.ignoreRequirements then .ok () else vRequired v b),
    whenSome r.oneOf (fun _ => vOneOfDirect v),     -- a rule that carries `one_of` reaches AtLeastOneValidator with the bare value
    whenSome r.optional (vOptional v),
    whenSome r.types (vTypes env v),
    (if r.uuid then vUuid v else .ok ()),
    whenSome r.association (vAssociation env v),
    whenSome r.pgType (vPropertyGroup env v),
    whenSome r.values (vValues v),
    whenSome r.shape (vShape v) ]

/-- first error of a list of verdicts -/
def firstErr : List V → V
  | [] => .ok ()
  | .ok () :: rest => firstErr rest
  | .error e :: _ => .error e

/-- `InputValidation.validate(name, value, validations)` -/
def validate (env : Env) (o : Options) (r : Rules) (v : PyVal) : V :=
  if o.ignored then .ok () else firstErr (stages env o r v)

/-- the declarative reading of a rule dictionary: every declared constraint holds -/
def Satisfies (env : Env) (o : Options) (r : Rules) (v : PyVal) : Prop :=
  o.ignored = true ∨
  ( (∀ b, r.required = some b → o.ignoreRequirements = false → ¬ (isNone v = true ∧ b = true))
  ∧ (∀ g, r.oneOf = some g → ∃ kv, v = .dict kv ∧ (kv.map fun e => truthy e.2).any id = true)
  ∧ (∀ b, r.optional = some b → ¬ (isNone v = true ∧ b = false))
  ∧ (∀ t, r.types = some t → vTypes env v t = .ok ())
  ∧ (r.uuid = true → vUuid v = .ok ())
  ∧ (∀ a, r.association = some a → vAssociation env v a = .ok ())
  ∧ (∀ g, r.pgType = some g → vPropertyGroup env v g = .ok ())
  ∧ (∀ l, r.values = some l → vValues v l = .ok ())
  ∧ (∀ s, r.shape = some s → vShape v s = .ok ()) )

/-! ### `validate_data`: the rule table is the validator object's state -/

/-- an entry of `InputValidation.validations`; `assocName` is the *name* of the parent parameter as inferred
    from the form (`"geoh5"` for objects and groups), resolved against the data at validation time -/
structure Entry where
  name : String
  rules : Rules
  assocName : Option String := none
deriving Repr

abbrev Table := List Entry

/-- what `data[parent]` resolves to as the `valid` argument -/
def resolveAssoc (env : Env) (v : PyVal) : Assoc :=
  match v with
  | .none => .noneVal
  | .list _ => .listVal
  | .ws _ => .ws
  | .ent u => (match env.find u with | some i => if i.kind == .entity then .ent u else .other | none => .ent u)
  | _ => .other

def lookupData (data : List (String × PyVal)) (k : String) : Option PyVal := data.lookup k

/-- one pass of the loop body for entry `e`; returns the entry as it is left in the table, the `one_of`
    contribution and the verdict -/
def checkEntry (var : Variant) (env : Env) (o : Options) (data : List (String × PyVal)) (e : Entry) :
    Entry × Option (String × Bool) × V :=
  match lookupData data e.name with
  | none =>
    (e, none, if e.rules.required.isSome && !o.ignoreRequirements then .error .required else .ok ())
  | some v =>
    let contrib := e.rules.oneOf.map fun g => (g, !isNone v)
    let rules' := { e.rules with oneOf := none }
    let e' := match var with | .asFound => { e with rules := rules' } | .repaired => e
    let rules'' : Rules := match e.assocName with
      | some a => (match lookupData data a with
          | some pv => { rules' with association := some (resolveAssoc env pv) }
          | none => { rules' with association := some .other })        -- the bare name reaches the validator
      | none => rules'
    (e', contrib, validate env { o with ignored := o.ignored } rules'' v)

/-- the loop of `validate_data` over the table: stops at the first error; entries visited so far keep what the
    variant did to them -/
def checkAll (var : Variant) (env : Env) (o : Options) (data : List (String × PyVal)) :
    Table → Table × List (String × Bool) × V
  | [] => ([], [], .ok ())
  | e :: rest =>
    match checkEntry var env o data e with
    | (e', c, .ok ()) =>
      let (rest', cs, r) := checkAll var env o data rest
      (e' :: rest', (match c with | some x => x :: cs | none => cs), r)
    | (e', c, .error err) => (e' :: rest, (match c with | some x => [x] | none => []), .error err)

def groupsOf (cs : List (String × Bool)) : List String := (cs.map (·.1)).eraseDups

def checkGroups (cs : List (String × Bool)) : V :=
  (groupsOf cs).forM fun g => vAtLeastOne ((cs.filter (·.1 == g)).map (·.2))

/-- `InputValidation.validate_data(data)` -/
def validateData (var : Variant) (env : Env) (o : Options) (t : Table) (data : List (String × PyVal)) : Table × V :=
  let (t', cs, r) := checkAll var env o data t
  match r with
  | .ok () => (t', checkGroups cs)
  | .error e => (t', .error e)

/-- verdicts of a sequence of calls on one validator object -/
def runData (var : Variant) (env : Env) (o : Options) : Table → List (List (String × PyVal)) → List V
  | _, [] => []
  | t, d :: ds => let (t', r) := validateData var env o t d; r :: runData var env o t' ds

/-! ### `EnforcerPool` -/

inductive Enf
  | type (ts : List Ty)          -- `TypeEnforcer`: `None` is always accepted
  | value (vs : List PyVal)      -- `ValueEnforcer`
  | uuid                         -- `UUIDEnforcer`
deriving Repr

/-- outcome of one enforcer: rule holds, validation error (captured by the pool), or a Python error that escapes -/
inductive EnfRes | ok | bad (e : VErr) | raised
deriving DecidableEq, Repr

/-- lists and dictionaries are unhashable: `value in {…}` raises TypeError -/
def unhashable : PyVal → Bool
  | .list _ | .dict _ => true
  | _ => false

def Enf.check (env : Env) (v : PyVal) : Enf → EnfRes
  | .type ts => if isNone v || ts.any (isInst env v) then .ok else .bad .type
  | .value vs => if unhashable v then .raised else if vs.any (pyEq v) then .ok else .bad .value
  | .uuid => if isNone v || (uuidParse v).isSome then .ok else .bad .uuid

structure Pool where
  enforcers : List Enf
  errors : List VErr := []
deriving Repr

/-- the loop of `EnforcerPool.enforce`: validation errors are appended to the list, a Python error ends the loop -/
def collect (env : Env) (v : PyVal) : List Enf → List VErr → List VErr × Bool
  | [], acc => (acc, false)
  | e :: rest, acc =>
    match e.check env v with
    | .ok => collect env v rest acc
    | .bad err => collect env v rest (acc ++ [err])
    | .raised => (acc, true)

/-- `EnforcerPool.enforce(value)`: collect, then raise (a single error is popped; an aggregate of several was
    left in the list by the code as found, which also started from whatever an earlier call had left) -/
def Pool.enforce (var : Variant) (env : Env) (p : Pool) (v : PyVal) : Pool × V :=
  let start := match var with | .asFound => p.errors | .repaired => []
  match collect env v p.enforcers start with
  | (errs, true) => ({ p with errors := errs }, .error .attributeError)
  | ([], false) => ({ p with errors := [] }, .ok ())
  | ([e], false) => ({ p with errors := [] }, .error e)
  | (errs, false) => ({ p with errors := match var with | .asFound => errs | .repaired => [] }, .error .aggregate)

def Pool.run (var : Variant) (env : Env) : Pool → List PyVal → List V
  | _, [] => []
  | p, v :: vs => let (p', r) := p.enforce var env v; r :: Pool.run var env p' vs

/-! ### `Parameter` -/

structure Param where
  pool : Pool
  value : PyVal := .none
deriving Repr

/-- `parameter.value = v`: the code as found stored first and validated afterwards -/
def Param.set (var : Variant) (env : Env) (p : Param) (v : PyVal) : Param × V :=
  let (pool', r) := p.pool.enforce var env v
  match var, r with
  | .asFound, _ => ({ pool := pool', value := v }, r)
  | .repaired, .ok () => ({ pool := pool', value := v }, r)
  | .repaired, .error _ => ({ pool := pool', value := p.value }, r)

end GeoVerif.Valid
