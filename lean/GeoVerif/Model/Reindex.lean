/-
M0 `Reindex` — NumPy index arithmetic shared by C07, C13, C16.

  `keep mask xs`      = `xs[mask]`               (boolean-mask selection)
  `rank mask i`       = `np.cumsum(mask)[i] - mask[i]` = position of a kept element
                        (`new_index[mask] = np.arange(mask.sum())`)
  `normIdx n i`       = NumPy's handling of a (possibly negative) index into length `n`
  `maskOfIdx n idx`   = `m = ones(n, bool); m[idx] = False`  (what `np.delete(xs, idx)` keeps)
-/
namespace GeoVerif.Reindex

def keep {α} : List Bool → List α → List α
  | b :: bs, x :: xs => if b then x :: keep bs xs else keep bs xs
  | _, _ => []

def rank : List Bool → Nat → Nat
  | b :: bs, i + 1 => (if b then 1 else 0) + rank bs i
  | _, _ => 0

def count (mask : List Bool) : Nat := rank mask mask.length

/-- NumPy index normalisation: `some j` for a valid index, `none` = IndexError. -/
def normIdx (n : Nat) (i : Int) : Option Nat :=
  if 0 ≤ i then (if i < n then some i.toNat else none)
  else (if -(n : Int) ≤ i then some (i + n).toNat else none)

/-- all indices valid? (otherwise NumPy raises before anything is changed) -/
def idxOk (n : Nat) (idx : List Int) : Bool := idx.all fun i => (normIdx n i).isSome

/-- `True` = kept.  Duplicates and order of `idx` are irrelevant. -/
def maskOfIdx (n : Nat) (idx : List Int) : List Bool :=
  (List.range n).map fun j => !(idx.any fun i => normIdx n i == some j)

/-- `np.delete(xs, idx)` -/
def deleteIdx {α} (idx : List Int) (xs : List α) : List α := keep (maskOfIdx xs.length idx) xs

/-- re-index one cell onto the compacted vertex list (`new_index[cell]`) -/
def remap (mask : List Bool) (cell : List Nat) : List Nat := cell.map (rank mask)

/-- every vertex of the cell is kept (`np.all(mask[cells], axis=1)`) -/
def cellKept (mask : List Bool) (cell : List Nat) : Bool := cell.all fun v => mask[v]? == some true

end GeoVerif.Reindex
