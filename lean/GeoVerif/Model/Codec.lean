/-
M3 `Codec` — how values are stored and read back (C08).

  FloatData    : `format_values` (NaN stays NaN), writer `out[isnan] = FLOAT_NDV`,
                 reader `values[values == FLOAT_NDV] = nan`
  IntegerData  : `format_values` (`values[isnan] = INTEGER_NDV`), `format_type`
                 (non-integral → TypeError, then `astype(int32)`), stored `<i4`
  BooleanData  : `format_type` (`set(values) - {0,1}` → ValueError), stored int8 0/1
  value maps   : `ReferenceValueMap.map` setter (`_validate_key_value`, key 0 ↦ "Unknown")
  text         : UTF-8 (`np.char.encode(values, "utf-8")`, reader `decode("utf-8")`)
-/
namespace GeoVerif.Codec

/-- an IEEE double as far as storage is concerned -/
inductive Flt where
  | nan
  | fin (q : Rat)
  | inf (neg : Bool)
deriving DecidableEq, Repr

/-- writer: NaN → the float no-data code -/
def encF (ndv : Rat) (x : Flt) : Flt := if x = .nan then .fin ndv else x
/-- reader: the float no-data code → NaN -/
def decF (ndv : Rat) (y : Flt) : Flt := if y = .fin ndv then .nan else y

inductive Err | typeError | valueError | keyError
deriving DecidableEq, Repr

def intNdv : Int := -2147483648

def fits32 (v : Int) : Bool := decide (-2147483648 ≤ v) && decide (v ≤ 2147483647)

/-- what `astype(int32)` does to an integer that does not fit: two's complement wrap -/
def wrap32 (v : Int) : Int := (v + 2147483648) % 4294967296 - 2147483648

/-- one entry offered to an IntegerData -/
inductive NumIn where
  | nan
  | int (v : Int)
  | frac                 -- a finite non-integral value
deriving DecidableEq, Repr

/-- `IntegerData.format_values` for one entry.  `checked = true` is the repaired code (range
    check before `astype`), `false` the code as found (silent wrap). -/
def encI (checked : Bool) : NumIn → Except Err Int
  | .nan => .ok intNdv
  | .frac => .error .typeError
  | .int v => if fits32 v then .ok v else if checked then .error .valueError else .ok (wrap32 v)

/-- `BooleanData.format_type` + writer (`astype("int8")`) for one entry -/
def encB : NumIn → Except Err Nat
  | .nan => .ok 0        -- `values[isnan] = nan_value` and BooleanData's no-data value is 0
  | .int 0 => .ok 0
  | .int 1 => .ok 1
  | _ => .error .valueError

/-- longer than the geometry allows → refused (`format_length`) -/
def checkLength (n k : Nat) (isObjectAssoc : Bool) : Except Err Unit :=
  if k > n && !isObjectAssoc then .error .valueError else .ok ()

/-! ### reference value maps -/

abbrev VMap := List (Int × String)

/-- `_validate_key_value`: `none` = accepted -/
def validKV (k : Int) (v : String) : Option Err :=
  if k < 0 ∨ 4294967295 < k then some .keyError        -- the keys are stored as unsigned 32-bit integers
  else if k = 0 ∧ v ≠ "Unknown" then some .valueError
  else none

/-- `ReferenceValueMap.map` setter: validate every pair, add `0 ↦ "Unknown"` when missing
    (dict insertion order: appended last) -/
def normalise (m : VMap) : Except Err VMap :=
  match m.findSome? (fun kv => validKV kv.1 kv.2) with
  | some e => .error e
  | none => if m.any (·.1 == 0) then .ok m else .ok (m ++ [(0, "Unknown")])

/-- what the entries of an array given as float data are, before `FloatData.format_type`: real numbers of some width, or
    complex numbers - which float data cannot hold -/
inductive FltIn where
  | real (x : Flt)
  | complex
deriving Repr, DecidableEq

/-- `FloatData.format_type`: real entries are taken as they are, a complex array is refused (TypeError) -/
def acceptF : FltIn → Except Err Flt
  | .real x => .ok x
  | .complex => .error .typeError

/-- `NumericData.format_length`: an array shorter than its association is completed with the no-data value
    (NaN before encoding); the model of an array assignment is `(padTo nan n xs).map enc`. -/
def padTo {α} (nan : α) (n : Nat) (xs : List α) : List α := xs ++ List.replicate (n - xs.length) nan

end GeoVerif.Codec
