/-
M6b `Depths` — attaching depth logs to a drillhole (C18, second half): `Drillhole.validate_depth_data`,
`shared.utils.match_values` / `merge_arrays` and `Drillhole.sort_depths` (geoh5py/objects/drillhole.py,
geoh5py/shared/utils.py), for holes that carry depth logs only (no interval tables: every vertex has a depth).

The hole is its DEPTH record and its per-vertex columns; `none` is the no-data value (NaN).  One `add_data` call hands
over several logs; each log is matched against the depths present *at that moment* (the record is not re-sorted between
the logs of one call), matched samples go to the vertex that has their depth, the others get new vertices at the end; when
the call is over everything is sorted by depth with one permutation.

`matchOne` is the model of `match_values` for one query under the hypothesis the theorems state (`Separated`: the depths
present are more than `2·eps` apart, so at most one of them is within `eps` of the query; without it the code may find two
candidates and the model only one — such inputs are judged by the oracle, not by the correspondence).
-/
namespace GeoVerif.Depths

abbrev Col := List (Option Rat)

structure Hole where
  depth : List Rat                 -- the DEPTH record, one entry per vertex
  cols : List (String × Col)       -- vertex data, padded with no-data to the number of vertices when read
deriving Repr

def absR (x : Rat) : Rat := if x < 0 then -x else x

/-- index of the vertex whose depth is within `eps` of `b` -/
def matchOne (eps : Rat) (depth : List Rat) (b : Rat) : Option Nat :=
  depth.findIdx? fun a => decide (absR (a - b) < eps)

/-- `l[i] := v` -/
def setAt (l : Col) (i : Nat) (v : Option Rat) : Col := l.set i v

/-- `merge_arrays(nan * n, values, replace="B->A", mapping)` followed by the unmatched values: the column of one log,
    built sample by sample (`acc` starts as `n` no-data entries; `depth` is the record the log is matched against) -/
def place (eps : Rat) (depth : List Rat) : List (Rat × Option Rat) → Col → Col × List (Rat × Option Rat)
  | [], acc => (acc, [])
  | (b, v) :: rest, acc =>
    match matchOne eps depth b with
    | some i =>
      let (acc', un) := place eps depth rest (setAt acc i v)
      (acc', un)
    | none =>
      let (acc', un) := place eps depth rest acc
      (acc', (b, v) :: un)

def pad (n : Nat) (c : Col) : Col := c ++ List.replicate (n - c.length) none

/-- one log of an `add_data` call: `validate_depth_data` -/
def addLog (eps : Rat) (h : Hole) (name : String) (samples : List (Rat × Option Rat)) : Hole :=
  let n := h.depth.length
  let (col, un) := place eps h.depth samples (List.replicate n none)
  { depth := h.depth ++ un.map (·.1),
    cols := h.cols ++ [(name, col ++ un.map (·.2))] }

/-- `xs[σ]` -/
def applyPerm {α} (σ : List Nat) (xs : List α) (dflt : α) : List α := σ.map fun i => xs.getD i dflt

/-- insertion of an index into a list of indices ordered by depth (stable) -/
def insertBy (depth : List Rat) (i : Nat) : List Nat → List Nat
  | [] => [i]
  | j :: js => if depth.getD i 0 < depth.getD j 0 then i :: j :: js else j :: insertBy depth i js

/-- `np.argsort(depths)` (any sorting permutation does for the theorems; the driver uses this stable one, which is the only
    one when the depths are distinct) -/
def argsort (depth : List Rat) : List Nat := (List.range depth.length).foldr (insertBy depth) []

/-- `sort_depths`: one permutation for the record and every column -/
def sortBy (σ : List Nat) (h : Hole) : Hole :=
  let n := h.depth.length
  { depth := applyPerm σ h.depth 0,
    cols := h.cols.map fun c => (c.1, applyPerm σ (pad n c.2) none) }

def sortDepths (h : Hole) : Hole := sortBy (argsort h.depth) h

/-- one `add_data` call with several depth logs -/
def addCall (eps : Rat) (h : Hole) (logs : List (String × List (Rat × Option Rat))) : Hole :=
  sortDepths (logs.foldl (fun s l => addLog eps s l.1 l.2) h)

/-- the value a column holds at the vertex whose depth is within `eps` of `d` -/
def valueAt (eps : Rat) (h : Hole) (name : String) (d : Rat) : Option (Option Rat) :=
  match matchOne eps h.depth d, h.cols.lookup name with
  | some i, some c => some ((pad h.depth.length c).getD i none)
  | _, _ => none

end GeoVerif.Depths
