/-
The hypothesis of the C14 round-trip theorems as executable predicates (`cleanKV`: every value of the dictionary is
unambiguous) and the canonical form a dictionary comes back in (`canonS`: entities as their identifiers).  Kept in a model
file so that the driver can evaluate the hypothesis on the dictionaries of real files.
-/
import GeoVerif.Model.UiFile
namespace GeoVerif.UiFile
open GeoVerif.Py GeoVerif.Py.PyVal

@[irreducible] def wfUuid (u : String) : Bool :=
  uuidParse (.str (hyphenate u)) == some u && uuidParse (.str (bracedStr u)) == some u
    && bracedStr u != "" && bracedStr u != "inf" && bracedStr u != "-inf"

@[irreducible] def plainStr (s : String) : Bool :=
  s != "" && s != "inf" && s != "-inf" && (uuidParse (.str s)).isNone

def cleanS : PyVal → Bool
  | .none | .bool _ | .int _ | .flt _ | .inf _ => true
  | .nan => false
  | .str s => plainStr s && !geoh5Path s
  | .uuid u | .ent u => wfUuid u
  | .ws p => plainStr p && geoh5Path p
  | .list _ | .dict _ => false

def canonS : PyVal → PyVal
  | .ent u => .uuid u
  | v => v

mutual
def cleanV : PyVal → Bool
  | .dict kv => cleanKV kv
  | .list l => l.all cleanS
  | v => cleanS v
def cleanKV : KV → Bool
  | [] => true
  | (_, v) :: rest => cleanV v && cleanKV rest
end


end GeoVerif.UiFile
