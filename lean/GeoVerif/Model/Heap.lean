/-!
M10 `Heap` — aliasing of mutable values between a copy and its source (C12).

The tree model `Ws` carries attribute *tokens*, so "an in-place edit of the copy shows through in the source" cannot be said in
it.  Here every mutable container reachable from an entity (a metadata dictionary and the dictionaries nested in it, an array, a
colour map, a value map ...) is one cell of a heap; an entity is the list `path ↦ address` of the containers reachable from it,
flattened; an in-place edit changes the content of one cell for everybody who holds its address.
Core Lean only.
-/
namespace GeoVerif.Heap

abbrev Addr := Nat

structure Heap where
  cells : List (Addr × String)
deriving Repr

def Heap.get (h : Heap) (a : Addr) : Option String := (h.cells.find? (·.1 == a)).map (·.2)

/-- an in-place edit: the cell keeps its address -/
def Heap.set (h : Heap) (a : Addr) (c : String) : Heap :=
  ⟨h.cells.map fun p => if p.1 == a then (a, c) else p⟩

def Heap.dom (h : Heap) : List Addr := h.cells.map (·.1)

/-- an address no cell has -/
def Heap.fresh (h : Heap) : Addr := h.dom.foldl max 0 + 1

def Heap.alloc (h : Heap) (c : String) : Heap × Addr := (⟨h.cells ++ [(h.fresh, c)]⟩, h.fresh)

/-- the mutable containers reachable from an entity: `path ↦ address` -/
abbrev Obj := List (String × Addr)

def addrs (o : Obj) : List Addr := o.map (·.2)

/-- what reading every container of the entity shows -/
def observe (h : Heap) (o : Obj) : List (String × Option String) := o.map fun p => (p.1, h.get p.2)

/-- the copy and the source hold no container in common (evaluated by the driver on the identities of the real objects) -/
def aliasFree (o cp : Obj) : Bool := cp.all fun p => !(o.any fun q => q.2 == p.2)

/-- a copy that allocates a new cell for every container (what `deepcopy` of the attribute values does) -/
def deepCopy (h : Heap) : Obj → Heap × Obj
  | [] => (h, [])
  | (k, a) :: rest =>
    let (h1, a') := h.alloc ((h.get a).getD "")
    let (h2, rest') := deepCopy h1 rest
    (h2, (k, a') :: rest')

/-- a copy that hands the same containers over -/
def aliasCopy (h : Heap) (o : Obj) : Heap × Obj := (h, o)

end GeoVerif.Heap
