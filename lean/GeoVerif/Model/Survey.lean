/-
M6 `Survey` — drillhole desurveying (C18), one coordinate at a time.

`Drillhole.locations`, `Drillhole.desurvey`, `compute_deviation` (geoh5py/objects/drillhole.py).
`t` is the *augmented* depth column (`surveys = vstack([surveys[0], surveys]); surveys[0,0] = 0`),
`d` the corresponding station direction component (`deviation_x/y/z(azimuth, dip)`, taken from
the implementation: trigonometry is not modelled).  x, y and z are computed by the code with
the same formulas independently, so the model carries one scalar component.
-/
namespace GeoVerif.Survey

/-- per leg `(length, deviation)`: `dl_in + lengths * ddl / 2`, `ddl = (dl_out - dl_in) / lengths`
    where `lengths != 0` (for a zero-length leg the product with the length is 0) -/
def legs : List Rat → List Rat → List (Rat × Rat)
  | t0 :: t1 :: ts, d0 :: d1 :: ds =>
    (t1 - t0, if t1 - t0 = 0 then d0 else d0 + (t1 - t0) * ((d1 - d0) / (t1 - t0)) / 2)
      :: legs (t1 :: ts) (d1 :: ds)
  | _, _ => []

def cumsumFrom (acc : Rat) : List Rat → List Rat
  | [] => []
  | x :: xs => (acc + x) :: cumsumFrom (acc + x) xs

/-- `collar + cumsum(r_[0, lengths * deviation])` -/
def locs (collar : Rat) (lg : List (Rat × Rat)) : List Rat :=
  collar :: cumsumFrom collar (lg.map fun l => l.1 * l.2)

/-- `np.searchsorted(t, x, side="left")` on a sorted column: number of entries `< x` -/
def searchLeft (t : List Rat) (x : Rat) : Nat := (t.takeWhile (· < x)).length

/-- `Drillhole.desurvey` for one depth and one coordinate -/
def desurvey (collar : Rat) (t d : List Rat) (x : Rat) : Rat :=
  let lg := legs t d
  let il := searchLeft t x - 1                    -- `np.maximum(... - 1, 0)`
  let id := min il (lg.length - 1)                -- `np.minimum(ind_loc, n_dev - 1)`
  (locs collar lg).getD il 0 + (x - t.getD il 0) * (lg.getD id (0, 0)).2

/-! ### `sort_depths`: one permutation applied to depths, values and vertices, its inverse to cells -/

/-- `xs[sort_ind]` -/
def applyPerm {α} [Inhabited α] (σ : List Nat) (xs : List α) : List α := σ.map fun i => xs.getD i default

/-- `np.argsort(sort_ind)` for a permutation: the inverse permutation -/
def invPerm (σ : List Nat) : List Nat := (List.range σ.length).map fun v => σ.idxOf v

end GeoVerif.Survey
