/-
M7 `UiFile` — writing and reading a ui.json file (C14).

The scalar mappers (`none2str`, `inf2str`, `nan2str`, `as_str_if_uuid`, `entity2uuid`, `str2none`, `str2inf`,
`str2uuid`) and `flatten`, as well as the three mapper *lists* (which mappers `stringify`, `InputFile.numify` and
`InputFile.demote` apply, in which order), are REGENERATED from /repo on every run (`Gen/UiJson.lean`, T2
translator).  Hand-written here, statement by statement from the source, and tied by correspondence:

  * `dictMapper`      — `shared/utils.py::dict_mapper` (recursion into dictionaries, one level of lists, then the
                        mappers on the value itself);
  * `stringify`       — `shared/utils.py::stringify`;
  * `demote`          — `InputFile.demote`;
  * `jsonRT`          — `json.dump` followed by `json.load` (identity on the JSON fragment, `TypeError` on anything
                        `json` cannot serialise);
  * `numify`          — `InputFile.numify` (form validation `ui_validation` is C15's business and is left out);
  * `setEnabled`, `updateUi` — `ui_json/utils.py::set_enabled`, `InputFile.update_ui_values`;
  * `promote`         — `InputFile.promote` / `uuid2entity` against an environment of known identifiers.
-/
import GeoVerif.Gen.UiJson
namespace GeoVerif.UiFile
open GeoVerif.Py GeoVerif.Py.PyVal GeoVerif.Gen.Ui

abbrev KV := List (String × PyVal)

/-- `"{" + str(uuid) + "}"` as a string -/
def bracedStr (u : String) : String := "{" ++ hyphenate u ++ "}"

/-- apply the mappers left to right (`for fun in string_funcs: val = fun(val)`) -/
def applyFs (fs : List (PyVal → PyM PyVal)) (v : PyVal) : PyM PyVal :=
  match fs with
  | [] => .ok v
  | f :: rest => f v >>= applyFs rest

/-- `[… for elem in val]` with the mappers on each element -/
def mapElems (fs : List (PyVal → PyM PyVal)) : List PyVal → PyM (List PyVal)
  | [] => .ok []
  | x :: xs => do
    let y ← applyFs fs x
    let ys ← mapElems fs xs
    pure (y :: ys)

mutual
/-- `dict_mapper(val, fs)` -/
def dictMapper (fs : List (PyVal → PyM PyVal)) : PyVal → PyM PyVal
  | .dict kv => do
    let kv' ← dictMapperKV fs kv
    applyFs fs (.dict kv')
  | .list l => do
    let l' ← mapElems fs l
    pure (.list l')
  | v => applyFs fs v
def dictMapperKV (fs : List (PyVal → PyM PyVal)) : KV → PyM KV
  | [] => .ok []
  | (k, v) :: rest => do
    let v' ← dictMapper fs v
    let rest' ← dictMapperKV fs rest
    pure ((k, v') :: rest')
end

/-- `shared.utils.stringify(values)` -/
def stringify : KV → PyM KV
  | [] => .ok []
  | (k, v) :: rest => do
    let v' ← dictMapper stringifyMappers v
    let rest' ← stringify rest
    pure ((k, v') :: rest')

def mapDM (fs : List (PyVal → PyM PyVal)) : List PyVal → PyM (List PyVal)
  | [] => .ok []
  | x :: xs => do
    let y ← dictMapper fs x
    let ys ← mapDM fs xs
    pure (y :: ys)

mutual
/-- what `InputFile.demote` does with the value of one entry -/
def demoteV : PyVal → PyM PyVal
  | .dict kv => do pure (.dict (← demote kv))
  | .list l => do pure (.list (← mapDM demoteMappers l))
  | v => dictMapper demoteMappers v
/-- `InputFile.demote(var)` -/
def demote : KV → PyM KV
  | [] => .ok []
  | (k, v) :: rest => do
    let v' ← demoteV v
    let rest' ← demote rest
    pure ((k, v') :: rest')
end

mutual
/-- `json.load(json.dump(v))`: what `json` cannot serialise raises `TypeError` -/
def jsonRT : PyVal → PyM PyVal
  | .uuid _ => .error .typeError
  | .ent _ => .error .typeError
  | .ws _ => .error .typeError
  | .list l => do pure (.list (← jsonRTL l))
  | .dict kv => do pure (.dict (← jsonRTKV kv))
  | v => .ok v
def jsonRTL : List PyVal → PyM (List PyVal)
  | [] => .ok []
  | x :: xs => do
    let y ← jsonRT x
    let ys ← jsonRTL xs
    pure (y :: ys)
def jsonRTKV : KV → PyM KV
  | [] => .ok []
  | (k, v) :: rest => do
    let v' ← jsonRT v
    let rest' ← jsonRTKV rest
    pure ((k, v') :: rest')
end

mutual
/-- what `InputFile.numify` does with the value of one entry (form validation left out) -/
def numifyV : PyVal → PyM PyVal
  | .dict kv => do
    let kv' ← numify kv
    dictMapper numifyMappers (.dict kv')
  | v => dictMapper numifyMappers v
/-- `InputFile.numify(ui_json)` without the form validation -/
def numify : KV → PyM KV
  | [] => .ok []
  | (k, v) :: rest => do
    let v' ← numifyV v
    let rest' ← numify rest
    pure ((k, v') :: rest')
end

/-- what `write_ui_json` puts on disk and `json.load` gives back -/
def writeLoad (ui : KV) : PyM KV := do
  let d ← demote ui
  let s ← stringify d
  jsonRTKV s

/-- `read_ui_json(write_ui_json(ui))`'s `_ui_json` -/
def writeRead (ui : KV) : PyM KV := writeLoad ui >>= numify

/-! ### `update_ui_values` -/

def lookupD (kv : KV) (k : String) (d : PyVal) : PyVal := (kv.lookup k).getD d

def setKey (kv : KV) (k : String) (v : PyVal) : KV :=
  if kv.any (·.1 == k) then kv.map (fun e => if e.1 == k then (k, v) else e) else kv ++ [(k, v)]

/-- set `form[member] = v` for the form called `name` -/
def setMember (ui : KV) (name member : String) (v : PyVal) : KV :=
  ui.map fun e => if e.1 == name then
      (match e.2 with | .dict f => (e.1, .dict (setKey f member v)) | _ => e)
    else e

/-- `set_enabled(ui_json, parameter, value)` (warnings are not effects) -/
def setEnabled (ui : KV) (name : String) (value : Bool) : PyM KV := do
  let form ← (match ui.lookup name with | some (.dict f) => pure f | _ => throw .keyError : PyM KV)
  let ui1 := if truthy (lookupD form "optional" (.bool false)) then setMember ui name "enabled" (.bool value) else ui
  let groupName := lookupD form "group" (.bool false)
  let mut ui2 := ui1
  let mut isGroupOptional := false
  if truthy groupName then
    let group ← collect (.dict ui1) (.str "group") groupName
    let params ← find_all group (.str "groupOptional") .none
    match params with
    | .list (.str p0 :: _) =>
      isGroupOptional := true
      if p0 == name then
        match group with
        | .dict g => ui2 := g.foldl (fun u e => setMember u e.1 "enabled" (.bool value)) ui1
        | _ => pure ()
    | _ => pure ()
  if !isGroupOptional && form.any (·.1 == "dependency") then
    let _ ← dependency_requires_value (.dict ui2) (.str name)
  pure ui2

def isEntOrUuid : PyVal → Bool
  | .ent _ | .uuid _ => true
  | _ => false

/-- one iteration of the loop of `update_ui_values` -/
def updateOne (updEnabled : Bool) (ui : KV) (key : String) (value : PyVal) : PyM KV := do
  match ui.lookup key with
  | Option.none => throw .keyError
  | some (.dict form) =>
    let mut ui := ui
    let enabled := lookupD form "enabled" .none
    if !isNone enabled then
      let e := if updEnabled then !isNone value else truthy enabled
      ui ← setEnabled ui key e
    let mut member := "value"
    if form.any (·.1 == "isValue") then
      if isEntOrUuid value then
        ui := setMember ui key "isValue" (.bool false)
        member := "property"
      else
        ui := setMember ui key "isValue" (.bool true)
    let form' ← (match ui.lookup key with | some (.dict f) => pure f | _ => throw .keyError : PyM KV)
    if isNone value && !truthy (lookupD form' "enabled" (.bool false)) then
      pure ui
    else
      pure (setMember ui key member value)
  | some _ => pure (setKey ui key value)

/-- `InputFile.update_ui_values(data)` -/
def updateUi (updEnabled : Bool) (ui : KV) : KV → PyM KV
  | [] => .ok ui
  | (k, v) :: rest => do
    let ui' ← updateOne updEnabled ui k v
    updateUi updEnabled ui' rest

/-! ### promotion -/

/-- identifiers `uuid2entity` resolves in the workspace (entities and property groups) -/
structure Env where
  known : List String

/-- `InputFile._uid_promotion` without the association check: a known identifier becomes the entity, an unknown
    one `None` -/
def promoteV (env : Env) : PyVal → PyVal
  | .uuid u => if env.known.contains u then .ent u else .none
  | v => v

mutual
def promoteE (env : Env) : PyVal → PyVal
  | .dict kv => .dict (promote env kv)
  | .list l => .list (l.map (promoteV env))
  | v => promoteV env v
/-- `InputFile.promote(var)` -/
def promote (env : Env) : KV → KV
  | [] => []
  | (k, v) :: rest => (k, promoteE env v) :: promote env rest
end

/-- `InputFile.data` after `read_ui_json`: flatten, then promote -/
def readData (env : Env) (ui : KV) : PyM KV := do
  match ← flatten (.dict ui) with
  | .dict d => pure (promote env d)
  | _ => throw .typeError

end GeoVerif.UiFile
