/-! # M3b — the attribute writer (`H5Writer.write_attributes`, `Concatenator.update_concatenated_attributes`)

The entity's attribute map is walked once; every attribute whose in-memory value is not None is created on the node
(h5py's `attrs.create` replaces an existing attribute).  As found, an attribute whose value is None was skipped, so a value
written earlier stayed in the file (`writeFound`); the repaired writer removes it (`writeFixed`).  Keys and values are opaque. -/
namespace GeoVerif.AttrW

abbrev Store := List (String × String)          -- attributes of one node, at most one entry per key
abbrev Mem := List (String × Option String)     -- the attribute map with the in-memory values

def get (s : Store) (k : String) : Option String := (s.find? (·.1 == k)).map (·.2)
def del (s : Store) (k : String) : Store := s.filter (fun e => !(e.1 == k))
def put (s : Store) (k v : String) : Store := (k, v) :: del s k

def stepFound (s : Store) (e : String × Option String) : Store :=
  match e.2 with
  | none => s
  | some v => put s e.1 v

def stepFixed (s : Store) (e : String × Option String) : Store :=
  match e.2 with
  | none => del s e.1
  | some v => put s e.1 v

def writeFound (mem : Mem) (s : Store) : Store := mem.foldl stepFound s
def writeFixed (mem : Mem) (s : Store) : Store := mem.foldl stepFixed s

end GeoVerif.AttrW
