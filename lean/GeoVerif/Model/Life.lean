import GeoVerif.Model.Ws
/-
`Life` — the workspace life cycle (C10, C11): closed / read-only / read-write, on top of `Ws`.

  `Workspace.open/close/__exit__`, the gate `Workspace._io_call(fun, mode=...)`
  (`mode in ["r+", "a"]` on a handle opened `"r"` → UserWarning), `Workspace.geoh5`
  (`Geoh5FileClosedError` when closed), `fetch_active_workspace` (geoh5py/shared/utils.py).

The file is written through: after every completed mutating call it is `fileOf tree`.
-/
namespace GeoVerif.Life
open GeoVerif.Ws

inductive Mode | closed | r | rw
deriving DecidableEq, Repr

structure LSt where
  tree : Tree          -- what the API shows (kept in memory also while closed)
  file : File          -- what is on disk
  mode : Mode

inductive LOut | ok | refused | readonly | closedError | openError
deriving DecidableEq, Repr

inductive LOp where
  | api (op : Op)                 -- a mutating API call
  | read (u : Nat)                -- a call that needs the file (lazy getter, lookup)
  | close                         -- explicit close or normal exit of the with-block
  | crash                         -- an exception escapes the with-block: `__exit__` closes
  | open (m : Mode)               -- `Workspace.open(mode)` / a helper re-opening in another mode
deriving Repr

def outOf : Out → LOut
  | .ok => .ok
  | .refused => .refused
  | .missing => .refused

def lstep (s : LSt) : LOp → LSt × LOut
  | .api op =>
    match s.mode with
    | .closed => (s, .closedError)
    | .r => (s, .readonly)                              -- the `_io_call` gate
    | .rw =>
      let (t', o) := step s.tree op
      ({ s with tree := t', file := fileOf t' }, outOf o)   -- write-through
  | .read _ =>
    match s.mode with
    | .closed => (s, .closedError)
    | _ => (s, .ok)
  | .close => ({ s with mode := .closed }, .ok)
  | .crash => ({ s with mode := .closed }, .ok)
  | .open m =>
    match s.mode, m with
    | .closed, .closed => (s, .ok)
    | .closed, m =>
      match load s.file with                             -- the tree is rebuilt from the file
      | some t => ({ s with tree := t, mode := m }, .ok)
      | none => (s, .openError)
    | _, _ => (s, .ok)                                   -- already open: warning, same handle

def lrun (s : LSt) (ops : List LOp) : LSt := ops.foldl (fun st op => (lstep st op).1) s

/-- the initial state: a freshly created workspace, open read-write -/
def init (t : Tree) : LSt := ⟨t, fileOf t, .rw⟩

end GeoVerif.Life
