/-!
M2c `Records` — the attribute records of a drillhole group
(`Concatenator.attributes_keys`, `concatenated_attributes["Attributes"]`, `get_concatenated_attributes`,
`update_concatenated_attributes`, the tail of `Concatenator.remove_entity`).

The code keeps two parallel lists: the identifiers (`attributes_keys`) and the records (dictionaries, each with its own `"ID"`).
`get_concatenated_attributes(uid)` returns the record at the position of `uid` in the key list and *appends* an empty record
(and the key) when the identifier is unknown; `update_concatenated_attributes` fills the record it gets (the `"ID"` among the
fields); removal looks the record up, removes the key (`list.remove`: first occurrence) and the record (`list.remove` of the
dictionary: the first record *equal* to it).  Fields are opaque tokens; identifiers are naturals.  Core Lean only.
-/
namespace GeoVerif.Records

abbrev Rec := List (String × String)

structure Recs where
  keys : List Nat
  recs : List (Nat × Rec)       -- (value of the record's "ID" field — 0 while the record is still empty —, other fields)
deriving Repr, DecidableEq

def empty : Recs := ⟨[], []⟩

/-- `get_concatenated_attributes`: position of the record, after appending an empty one for an unknown identifier -/
def locate (r : Recs) (u : Nat) : Recs × Nat :=
  if u ∈ r.keys then (r, r.keys.idxOf u)
  else (⟨r.keys ++ [u], r.recs ++ [(0, [])]⟩, r.recs.length)

/-- `update_concatenated_attributes(entity)`: the record found is overwritten field by field; `"ID"` is one of them -/
def upsert (r : Recs) (u : Nat) (fields : Rec) : Recs :=
  let (r', i) := locate r u
  { r' with recs := r'.recs.set i (u, fields) }

/-- tail of `Concatenator.remove_entity`: look the record up, `attributes_keys.remove(uid)`, `Attributes.remove(record)` -/
def remove (r : Recs) (u : Nat) : Recs :=
  let (r', i) := locate r u
  match r'.recs[i]? with
  | none => r'
  | some h => ⟨r'.keys.erase u, r'.recs.erase h⟩

/-- what a reader of the attribute list finds for identifier `u` -/
def find (r : Recs) (u : Nat) : Option Rec := (r.recs.find? (·.1 == u)).map (·.2)

/-- the two lists describe the same entities in the same order, one record each -/
structure Inv (r : Recs) : Prop where
  aligned : r.recs.map (·.1) = r.keys
  nodup : r.keys.Nodup
  nonzero : 0 ∉ r.keys

def invCheck (r : Recs) : Bool :=
  (r.recs.map (·.1) == r.keys) && decide r.keys.Nodup && !(r.keys.contains 0)

inductive Op where
  | upsert (u : Nat) (fields : Rec)
  | remove (u : Nat)
deriving Repr

def step (r : Recs) : Op → Recs
  | .upsert u f => upsert r u f
  | .remove u => remove r u

/-- the abstract specification: a finite map identifier ↦ record -/
abbrev Spec := Nat → Option Rec
def specStep (m : Spec) : Op → Spec
  | .upsert u f => fun v => if v = u then some f else m v
  | .remove u => fun v => if v = u then none else m v

end GeoVerif.Records
