import GeoVerif.Model.Concat
/-!
M2b `Table` — the group-wide table view of a drillhole group
(`geoh5py/shared/concatenation/drillholes_group_table.py`), on top of the channels of M2:

  `index_by_drillhole`       → `holesInOrder` (`np.sort(index[assoc], order="Start index")["Object ID"]`)
                               and `infoOf` (`index[name][index[name]["Object ID"] == hole][0][:2]`, else `[0, 0]`)
  `_pad_arrays_to_association` → `column` (slice, then padding with the no-data value up to the association's size)
  `_depth_table_by_key`      → `block` (one hole) and `table` (all holes, concatenated)

NumPy breaks ties of equal `Start index` by the remaining fields; two rows of one exactly tiled channel can only share
a start when one of them is empty, and an empty association row contributes no table row, so the table does not depend on
the tie-break (the sort is modelled as a stable insertion sort).  Column `i` of a request `names` holds the values of
`names[i]` (the behaviour of the repaired `_depth_table_by_key`; as found, the columns came in the order of the group's own
name list whatever order was requested — recorded in known_findings.json).
Core Lean only.
-/
namespace GeoVerif.Concat

variable {α : Type}

def insertByStart (r : Row) : List Row → List Row
  | [] => [r]
  | q :: qs => if r.start ≤ q.start then r :: q :: qs else q :: insertByStart r qs

def sortByStart (rows : List Row) : List Row := rows.foldr insertByStart []

/-- the holes of the table, in table order -/
def holesInOrder (st : Store α) (assoc : String) : List Nat :=
  match st.find? assoc with
  | none => []
  | some c => (sortByStart c.rows).map (·.obj)

/-- `(Start index, Size)` of the first row of the channel that belongs to hole `o`; `(0, 0)` without one -/
def infoOf (c : Option (Chan α)) (o : Nat) : Nat × Nat :=
  match c with
  | none => (0, 0)
  | some c =>
    match c.rows.find? (fun r => r.obj == o) with
    | some r => (r.start, r.size)
    | none => (0, 0)

def pad (v : List α) (len : Nat) (ndv : α) : List α := v ++ List.replicate (len - v.length) ndv

/-- one column of one hole's block -/
def column (c : Option (Chan α)) (o : Nat) (len : Nat) (ndv : α) : List α :=
  match c with
  | none => pad [] len ndv
  | some ch => pad (slice ch.data (infoOf c o).1 (infoOf c o).2) len ndv

/-- the rows of one hole: as many as its association entry is long -/
def block (st : Store α) (ndv : String → α) (assoc : String) (names : List String) (o : Nat) :
    List (Nat × List α) :=
  let len := (infoOf (st.find? assoc) o).2
  (List.range len).map fun i =>
    (o, names.map fun nm => ((column (st.find? nm) o len (ndv nm))[i]?).getD (ndv nm))

def table (st : Store α) (ndv : String → α) (assoc : String) (names : List String) : List (Nat × List α) :=
  (holesInOrder st assoc).flatMap (block st ndv assoc names)

/-- no hole has two rows in the channel (a hole cannot hold two data sets of one name) -/
def ObjNodup (c : Chan α) : Prop := (c.rows.map (·.obj)).Nodup

def objNodupCheck (c : Chan α) : Bool :=
  (List.range c.rows.length).all fun i => (List.range c.rows.length).all fun j =>
    if i < j then
      match c.rows[i]?, c.rows[j]? with
      | some a, some b => a.obj != b.obj
      | _, _ => true
    else true

end GeoVerif.Concat
