/-
`Merge` — `CellMerger.create_object` / `PointsMerger.create_object` / `BaseMerger.merge_data`
(geoh5py/shared/merging/{cell,points,base}.py), C16.

Vertices are stacked in input order; the cells of each input are shifted by the number of
vertices of the inputs before it (`previous += n_vertices`, the repaired offset rule);
data are concatenated per (name, type, association) label in input order, inputs lacking a
label contribute no-data values.
-/
namespace GeoVerif.Merge

structure Inp (P T : Type) where
  verts : List P
  cells : List (List Nat)
  vdata : List (String × List T)     -- label ↦ values, one entry per vertex
  cdata : List (String × List T)     -- label ↦ values, one entry per cell
deriving Repr

def mergeVerts {P T} (is : List (Inp P T)) : List P := is.flatMap (·.verts)

/-- the loop of `CellMerger.create_object`, `off` = `previous` -/
def mergeCellsFrom {P T} (off : Nat) : List (Inp P T) → List (List Nat)
  | [] => []
  | i :: is => i.cells.map (·.map (· + off)) ++ mergeCellsFrom (off + i.verts.length) is

def mergeCells {P T} (is : List (Inp P T)) : List (List Nat) := mergeCellsFrom 0 is

/-- the as-found offset rule (`previous = nanmax(temp_cells) + 1`), kept for the
    counterexample that documents defect 15 -/
def mergeCellsMaxFrom {P T} (off : Nat) : List (Inp P T) → List (List Nat)
  | [] => []
  | i :: is =>
    let shifted := i.cells.map (·.map (· + off))
    shifted ++ mergeCellsMaxFrom ((shifted.flatten.foldl max 0) + 1) is

/-- merged values of one vertex-data label -/
def mergeVData {P T} (ndv : T) (label : String) (is : List (Inp P T)) : List T :=
  is.flatMap fun i => (i.vdata.lookup label).getD (List.replicate i.verts.length ndv)

def mergeCData {P T} (ndv : T) (label : String) (is : List (Inp P T)) : List T :=
  is.flatMap fun i => (i.cdata.lookup label).getD (List.replicate i.cells.length ndv)

/-- coordinates a cell connects -/
def coords {P} (verts : List P) (c : List Nat) : List (Option P) := c.map (verts[·]?)

def WellFormed {P T} (i : Inp P T) : Prop :=
  (∀ c ∈ i.cells, ∀ v ∈ c, v < i.verts.length)
  ∧ (∀ d ∈ i.vdata, d.2.length = i.verts.length)
  ∧ (∀ d ∈ i.cdata, d.2.length = i.cells.length)

end GeoVerif.Merge
