import GeoVerif.Model.Reindex
/-
`Geom` — Points / Curve / Surface with vertex- and cell-associated data (C07).

Models `Points.remove_vertices`, `CellObject.remove_vertices`, `CellObject.remove_cells`
(geoh5py/objects/points.py, cell_object.py), `ObjectBase.remove_children_values`
(object_base.py) and `NumericData.format_length` (data/numeric_data.py).
Vertices and data entries are opaque tokens.
-/
namespace GeoVerif.Geom
open GeoVerif.Reindex

structure Geom (P T : Type) where
  verts : List P
  cells : Option (List (List Nat))      -- `none` for Points
  vdata : List (String × List T)
  cdata : List (String × List T)
deriving Repr

inductive Err | valueError | indexError | typeError
deriving Repr, DecidableEq

def nCells {P T} (g : Geom P T) : Nat := (g.cells.getD []).length

/-- the guard of the code: `np.max(indices) > n - 1` → ValueError.  (`np.max` of an empty
    index list raises ValueError as well.) -/
def maxGuard (n : Nat) (idx : List Int) : Bool :=
  !idx.isEmpty && idx.all fun i => i ≤ (n : Int) - 1

/-- `remove_children_values(indices, assoc)`: `np.delete` on every data array of the association -/
def deleteData {T} (mask : List Bool) (ds : List (String × List T)) : List (String × List T) :=
  ds.map fun (n, v) => (n, keep mask v)

/-- `CellObject.remove_cells(indices)` -/
def removeCells {P T} (g : Geom P T) (idx : List Int) : Except Err (Geom P T) :=
  match g.cells with
  | none => .ok g                      -- warning, nothing to do
  | some cells =>
    if !maxGuard cells.length idx then .error .valueError
    else if !idxOk cells.length idx then .error .indexError
    else
      let m := maskOfIdx cells.length idx
      .ok { g with cells := some (keep m cells), cdata := deleteData m g.cdata }

/-- `Points.remove_vertices` / `CellObject.remove_vertices` (with the cells of the removed
    vertices dropped and the survivors re-indexed). -/
def removeVertices {P T} (g : Geom P T) (idx : List Int) : Except Err (Geom P T) :=
  if !maxGuard g.verts.length idx then .error .valueError
  else if !idxOk g.verts.length idx then .error .indexError
  else
    let m := maskOfIdx g.verts.length idx
    let g1 : Geom P T := { g with verts := keep m g.verts, vdata := deleteData m g.vdata }
    match g.cells with
    | none => .ok g1
    | some cells =>
      let cm := cells.map (cellKept m)
      .ok { g1 with cells := some ((keep cm cells).map (remap m)), cdata := deleteData cm g.cdata }

/-- `Points.copy(mask=m)` / `CellObject.copy(mask=m)` with `cell_mask = np.all(mask[cells], axis=1)`: the vertices selected by
    the mask, the cells all of whose vertices are selected (re-indexed by `new_id[cells]`), vertex data by the mask and cell
    data by the cell mask.  The source is not touched (the model is a function). -/
def maskedCopy {P T} (g : Geom P T) (m : List Bool) : Except Err (Geom P T) :=
  if m.length != g.verts.length then .error .valueError        -- "Mask must be an array of shape (n_vertices,)"
  else
    let g1 : Geom P T := { g with verts := keep m g.verts, vdata := deleteData m g.vdata }
    match g.cells with
    | none => .ok g1
    | some cells =>
      let cm := cells.map (cellKept m)
      .ok { g1 with cells := some ((keep cm cells).map (remap m)), cdata := deleteData cm g.cdata }

/-- both masks at once, `copy(mask=m, cell_mask=cm)`: a cell survives when the caller selected it *and* none of its vertices
    was dropped (repaired; as found a selected cell touching a dropped vertex was kept and rewired to vertex 1) -/
def andMask (a b : List Bool) : List Bool := List.zipWith (fun x y => x && y) a b

def maskedCopy2 {P T} (g : Geom P T) (m cmIn : List Bool) : Except Err (Geom P T) :=
  if m.length != g.verts.length then .error .valueError
  else
    match g.cells with
    | none => maskedCopy g m
    | some cells =>
      if cmIn.length != cells.length then .error .valueError
      else
        let cm := andMask (cells.map (cellKept m)) cmIn
        .ok { g with verts := keep m g.verts, vdata := deleteData m g.vdata,
                     cells := some ((keep cm cells).map (remap m)), cdata := deleteData cm g.cdata }

/-- `format_length` for an array of `k` entries against `n` expected: pad with no-data,
    refuse longer arrays. -/
def formatLength {T} (ndv : T) (n : Nat) (v : List T) : Except Err (List T) :=
  if v.length < n then .ok (v ++ List.replicate (n - v.length) ndv)
  else if v.length > n then .error .valueError
  else .ok v

/-- assigning values to a vertex (`cell = false`) or cell data set -/
def setValues {P T} (ndv : T) (g : Geom P T) (cell : Bool) (name : String) (v : List T) :
    Except Err (Geom P T) :=
  let n := if cell then nCells g else g.verts.length
  match formatLength ndv n v with
  | .error e => .error e
  | .ok v' =>
    let upd (ds : List (String × List T)) :=
      if ds.any (·.1 == name) then ds.map fun e => if e.1 == name then (name, v') else e
      else ds ++ [(name, v')]
    if cell then .ok { g with cdata := upd g.cdata } else .ok { g with vdata := upd g.vdata }

/-- Geometry and data are mutually consistent. -/
def Consistent {P T} (g : Geom P T) : Prop :=
  (∀ d ∈ g.vdata, d.2.length = g.verts.length)
  ∧ (∀ d ∈ g.cdata, d.2.length = nCells g)
  ∧ (∀ c ∈ g.cells.getD [], ∀ v ∈ c, v < g.verts.length)

inductive Op (T : Type) where
  | rmVerts (idx : List Int)
  | rmCells (idx : List Int)
  | set (cell : Bool) (name : String) (v : List T)

/-- an operation that fails leaves the object as it was -/
def step {P T} (ndv : T) (g : Geom P T) : Op T → Geom P T
  | .rmVerts idx => match removeVertices g idx with | .ok g' => g' | .error _ => g
  | .rmCells idx => match removeCells g idx with | .ok g' => g' | .error _ => g
  | .set c n v => match setValues ndv g c n v with | .ok g' => g' | .error _ => g

end GeoVerif.Geom
