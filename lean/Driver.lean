import GeoVerif.Driver.Concat
import GeoVerif.Driver.Geom
import GeoVerif.Driver.Merge
import GeoVerif.Driver.Box
import GeoVerif.Driver.Grid
import GeoVerif.Driver.Survey
import GeoVerif.Driver.Codec
import GeoVerif.Driver.Ws
import GeoVerif.Driver.Life
import GeoVerif.Driver.Pair
import GeoVerif.Driver.Valid
import GeoVerif.Driver.UiFile
import GeoVerif.Driver.Depths
import GeoVerif.Driver.Records
import GeoVerif.Driver.Heap
import GeoVerif.Driver.AttrW
open Lean GeoVerif.Driver

structure DSt where
  concat : ConcatD.St := []
  geom : GeomD.St := GeomD.init
  ws : WsD.St := WsD.init
  life : LifeD.St := LifeD.init0
  recs : RecordsD.St := GeoVerif.Records.empty

def stepLine (st : DSt) (line : String) : DSt × String :=
  match Json.parse line with
  | .error e => (st, "{\"error\":" ++ (Json.str e).compress ++ "}")
  | .ok j =>
    match jstr j "m" with
    | "concat" => let (s, o) := ConcatD.handle st.concat j; ({ st with concat := s }, o.compress)
    | "geom" => let (s, o) := GeomD.handle st.geom j; ({ st with geom := s }, o.compress)
    | "merge" => (st, (MergeD.handle j).compress)
    | "box" => (st, (BoxD.handle j).compress)
    | "grid" => (st, (GridD.handle j).compress)
    | "survey" => (st, (SurveyD.handle j).compress)
    | "codec" => (st, (CodecD.handle j).compress)
    | "ws" => let (s, o) := WsD.handle st.ws j; ({ st with ws := s }, o.compress)
    | "pair" => (st, (PairD.handle j).compress)
    | "valid" => (st, (ValidD.handle j).compress)
    | "uifile" => (st, (UiFileD.handle j).compress)
    | "depths" => (st, (DepthsD.handle j).compress)
    | "heap" => (st, (HeapD.handle j).compress)
    | "attrw" => (st, (AttrWD.handle j).compress)
    | "records" => let (s, o) := RecordsD.handle st.recs j; ({ st with recs := s }, o.compress)
    | "life" => let (s, o) := LifeD.handle st.life j; ({ st with life := s }, o.compress)
    | _ => (st, "\"bad-model\"")

partial def loop (h : IO.FS.Stream) (out : IO.FS.Stream) (st : DSt) : IO Unit := do
  let line ← h.getLine
  if line.isEmpty then return ()
  let l := line.trimAscii.toString
  if l.isEmpty then loop h out st else
  let (st', o) := stepLine st l
  out.putStrLn o
  loop h out st'

def main : IO Unit := do
  let i ← IO.getStdin
  let o ← IO.getStdout
  loop i o {}
  o.flush
