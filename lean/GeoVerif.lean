import GeoVerif.Props.C04
