import GeoVerif.Props.C04
import GeoVerif.Props.C07
