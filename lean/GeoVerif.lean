import GeoVerif.Props.C04
import GeoVerif.Props.C07
import GeoVerif.Props.C08
import GeoVerif.Props.C13
import GeoVerif.Props.C16
import GeoVerif.Props.C17
import GeoVerif.Props.C18
